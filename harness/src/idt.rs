//! Driver for the IDT: layout / gate encoding / access paths (C12) and general-handler stubs
//! with simulated interrupt delivery (C13).

use crate::cpu;
use crate::gen::*;
use crate::out::*;
use core::ops::Bound;
use x86_64::structures::idt::{EntryOptions, InterruptDescriptorTable};
use x86_64::{PrivilegeLevel, VirtAddr};

pub type Idt = InterruptDescriptorTable;

pub fn raw(idt: &Idt) -> Vec<u64> {
    let p = idt as *const Idt as *const u64;
    (0..512).map(|i| unsafe { core::ptr::read_volatile(p.add(i)) }).collect()
}

fn current_cs() -> u64 {
    let cs: u16;
    unsafe { core::arch::asm!("mov {0:x}, cs", out(reg) cs, options(nomem, nostack, preserves_flags)) };
    cs as u64
}

/// gates that differ between two dumps: (vectors, flat [lo, hi] words)
fn changed(before: &[u64], after: &[u64]) -> (Vec<i64>, Vec<u64>) {
    let mut vs = Vec::new();
    let mut ws = Vec::new();
    for v in 0..256 {
        if before[2 * v] != after[2 * v] || before[2 * v + 1] != after[2 * v + 1] {
            vs.push(v as i64);
            ws.push(after[2 * v]);
            ws.push(after[2 * v + 1]);
        }
    }
    (vs, ws)
}

macro_rules! field_set {
    ($idt:expr, $v:expr, $addr:expr, $( ($n:expr, $f:ident) ),*) => {
        match $v {
            $( $n => Some(unsafe { $idt.$f.set_handler_addr($addr) } as *mut EntryOptions), )*
            _ => None,
        }
    };
}
macro_rules! field_addr {
    ($idt:expr, $v:expr, $( ($n:expr, $f:ident) ),*) => {
        match $v {
            $( $n => Some($idt.$f.handler_addr().as_u64()), )*
            _ => None,
        }
    };
}
macro_rules! field_off {
    ($idt:expr, $v:expr, $( ($n:expr, $f:ident) ),*) => {
        match $v {
            $( $n => Some(core::ptr::addr_of!($idt.$f) as u64 - $idt as *const Idt as u64), )*
            _ => None,
        }
    };
}
macro_rules! named {
    ($m:ident, $idt:expr, $v:expr $(, $x:expr)*) => {
        $m!($idt, $v $(, $x)*,
            (0, divide_error), (1, debug), (2, non_maskable_interrupt), (3, breakpoint), (4, overflow),
            (5, bound_range_exceeded), (6, invalid_opcode), (7, device_not_available), (8, double_fault),
            (10, invalid_tss), (11, segment_not_present), (12, stack_segment_fault),
            (13, general_protection_fault), (14, page_fault), (16, x87_floating_point),
            (17, alignment_check), (18, machine_check), (19, simd_floating_point), (20, virtualization),
            (21, cp_protection_exception), (28, hv_injection_exception),
            (29, vmm_communication_exception), (30, security_exception))
    };
}

/// set a handler address for vector v through the given access path; returns the options
fn set_via(idt: &mut Idt, path: u64, v: u8, addr: VirtAddr, a: u8, b: u8) -> Option<*mut EntryOptions> {
    match path {
        0 => named!(field_set, idt, v, addr),
        1 => Some(unsafe { idt[v].set_handler_addr(addr) } as *mut EntryOptions),
        2 => Some(unsafe { idt.slice_mut(a..=b)[(v - a) as usize].set_handler_addr(addr) } as *mut EntryOptions),
        3 => Some(unsafe { idt[a..=b][(v - a) as usize].set_handler_addr(addr) } as *mut EntryOptions),
        4 => Some(unsafe { idt[a..][(v - a) as usize].set_handler_addr(addr) } as *mut EntryOptions),
        _ => Some(unsafe { idt[(Bound::Included(a), Bound::Unbounded)][(v - a) as usize].set_handler_addr(addr) } as *mut EntryOptions),
    }
}
const PATHS: [&str; 6] = ["field", "index", "slice_mut", "range_inclusive", "range_from", "bound_pair"];

fn read_addr_via(idt: &Idt, path: u64, v: u8, a: u8, b: u8) -> Option<u64> {
    match path {
        0 => named!(field_addr, idt, v),
        1 => catch(|| idt[v].handler_addr().as_u64()),
        2 => catch(|| idt.slice(a..=b)[(v - a) as usize].handler_addr().as_u64()),
        _ => catch(|| idt[a..=b][(v - a) as usize].handler_addr().as_u64()),
    }
}

fn dump_ev(out: &mut Out, kind: &str, idt: &Idt) {
    out.emit(Ev::new("idt_dump").str("kind", kind).words("gates", &raw(idt)).n("size", core::mem::size_of::<Idt>() as i64).n("align", core::mem::align_of::<Idt>() as i64));
}

fn pl(n: u64) -> PrivilegeLevel {
    match n {
        0 => PrivilegeLevel::Ring0,
        1 => PrivilegeLevel::Ring1,
        2 => PrivilegeLevel::Ring2,
        _ => PrivilegeLevel::Ring3,
    }
}

fn one_vector_program(out: &mut Out, idt: &mut Idt, r: &mut Rng, lat: &[u64], v: u8, path: u64) {
    let addr = VirtAddr::new_truncate(any64(r, lat));
    let (a, b) = if v >= 32 { (32 + r.below((v - 32) as u64 + 1) as u8, v + r.below((255 - v) as u64 + 1) as u8) } else { (32, 255) };
    let before = raw(idt);
    let opt = catch(|| set_via(idt, path, v, addr, a, b));
    let after = raw(idt);
    let (vs, ws) = changed(&before, &after);
    let k = match &opt {
        Some(Some(_)) => "ok",
        Some(None) => "nopath",
        None => "panic",
    };
    let back = read_addr_via(idt, path, v, a, b);
    out.emit(
        Ev::new("idt_set")
            .str("path", PATHS[path as usize])
            .n("v", v as i64)
            .w("addr", addr.as_u64())
            .n("cs", current_cs() as i64)
            .str("k", k)
            .ints("vs", &vs)
            .words("ws", &ws)
            .w("back", back.unwrap_or(u64::MAX)),
    );
    let o = match opt {
        Some(Some(o)) => o,
        _ => return,
    };
    // random option setters through the reference the call returned
    for _ in 0..(2 + r.below(6)) {
        let before = raw(idt);
        let (name, arg): (&str, u64) = match r.below(5) {
            0 => ("set_present", r.below(2)),
            1 => ("disable_interrupts", r.below(2)),
            2 => ("set_privilege_level", r.below(4)),
            3 => ("set_stack_index", r.below(7)),
            _ => ("set_code_selector", r.below(65536)),
        };
        let ok = catch(|| unsafe {
            let o = &mut *o;
            match name {
                "set_present" => {
                    o.set_present(arg == 1);
                }
                "disable_interrupts" => {
                    o.disable_interrupts(arg == 1);
                }
                "set_privilege_level" => {
                    o.set_privilege_level(pl(arg));
                }
                "set_stack_index" => {
                    o.set_stack_index(arg as u16);
                }
                _ => {
                    o.set_code_selector(x86_64::structures::gdt::SegmentSelector(arg as u16));
                }
            }
        })
        .is_some();
        let after = raw(idt);
        let (vs, ws) = changed(&before, &after);
        let back = read_addr_via(idt, if path == 0 { 0 } else if v >= 32 { 1 } else { path.min(1) }, v, a, b);
        out.emit(
            Ev::new("idt_opt")
                .str("setter", name)
                .n("v", v as i64)
                .n("arg", arg as i64)
                .str("k", if ok { "ok" } else { "panic" })
                .ints("vs", &vs)
                .words("ws", &ws)
                .w("back", back.unwrap_or(u64::MAX)),
        );
    }
}

fn range_case(out: &mut Out, idt: &mut Idt, form: u64, a: u8, b: u8) {
    let base = idt as *const Idt as u64;
    let rep = |s: &[x86_64::structures::idt::Entry<x86_64::structures::idt::HandlerFunc>]| (s.as_ptr() as u64 - base, s.len());
    // (start kind, end kind) of the form as seen by RangeBounds
    let (sk, ek, name): (&str, &str, &str) = match form {
        0 => ("incl", "excl", "Range<u8>"),
        1 => ("incl", "excl", "Range<&u8>"),
        2 => ("incl", "none", "RangeFrom<u8>"),
        3 => ("incl", "none", "RangeFrom<&u8>"),
        4 => ("incl", "incl", "RangeInclusive<u8>"),
        5 => ("incl", "incl", "RangeInclusive<&u8>"),
        6 => ("none", "excl", "RangeTo<u8>"),
        7 => ("none", "excl", "RangeTo<&u8>"),
        8 => ("none", "incl", "RangeToInclusive<u8>"),
        9 => ("none", "incl", "RangeToInclusive<&u8>"),
        10 => ("none", "none", "RangeFull"),
        11..=19 => (["incl", "excl", "none"][((form - 11) / 3) as usize], ["incl", "excl", "none"][((form - 11) % 3) as usize], "(Bound<u8>,Bound<u8>)"),
        20..=28 => (["incl", "excl", "none"][((form - 20) / 3) as usize], ["incl", "excl", "none"][((form - 20) % 3) as usize], "(Bound<&u8>,Bound<&u8>)"),
        29 => ("incl", "incl", "slice(RangeInclusive)"),
        30 => ("excl", "excl", "slice_mut((Bound,Bound))"),
        _ => ("incl", "excl", "slice(Range)"),
    };
    let mk = |k: &str, x: u8| match k {
        "incl" => Bound::Included(x),
        "excl" => Bound::Excluded(x),
        _ => Bound::Unbounded,
    };
    let mkr = |k: &str, x: &'static u8| match k {
        "incl" => Bound::Included(x),
        "excl" => Bound::Excluded(x),
        _ => Bound::Unbounded,
    };
    // references with a long enough lifetime for the &u8 forms
    static BYTES: [u8; 256] = {
        let mut t = [0u8; 256];
        let mut i = 0;
        while i < 256 {
            t[i] = i as u8;
            i += 1;
        }
        t
    };
    let (ra, rb): (&'static u8, &'static u8) = (&BYTES[a as usize], &BYTES[b as usize]);
    let r = catch(|| match form {
        0 => rep(&idt[a..b]),
        1 => rep(&idt[ra..rb]),
        2 => rep(&idt[a..]),
        3 => rep(&idt[ra..]),
        4 => rep(&idt[a..=b]),
        5 => rep(&idt[ra..=rb]),
        6 => rep(&idt[..b]),
        7 => rep(&idt[..rb]),
        8 => rep(&idt[..=b]),
        9 => rep(&idt[..=rb]),
        10 => rep(&idt[..]),
        11..=19 => rep(&idt[(mk(sk, a), mk(ek, b))]),
        20..=28 => rep(&idt[(mkr(sk, ra), mkr(ek, rb))]),
        29 => rep(idt.slice(a..=b)),
        30 => rep(idt.slice_mut((Bound::Excluded(a), Bound::Excluded(b)))),
        _ => rep(idt.slice(a..b)),
    });
    let rm = catch(|| match form {
        0 => rep(&mut idt[a..b]),
        4 => rep(&mut idt[a..=b]),
        10 => rep(&mut idt[..]),
        11..=19 => rep(&mut idt[(mk(sk, a), mk(ek, b))]),
        _ => (u64::MAX, 0),
    });
    let (k, off, len) = match r {
        Some((o, l)) => ("ok", o as i64, l as i64),
        None => ("panic", 0, 0),
    };
    let mut_same = match (r, rm) {
        (Some(x), Some(y)) => y.0 == u64::MAX || x == y,
        (None, None) => true,
        (None, Some(y)) => y.0 == u64::MAX,
        _ => false,
    };
    out.emit(
        Ev::new("idt_range")
            .str("form", name)
            .str("sk", sk)
            .n("a", a as i64)
            .str("ek", ek)
            .n("b", b as i64)
            .str("k", k)
            .n("off", off)
            .n("len", len)
            .n("mut_same", mut_same as i64),
    );
}

pub fn run_idt(out: &mut Out, seed: u64, n: u64) {
    cpu::reset_regs();
    let lat = lattice_canon();
    let mut r = Rng::new(seed);
    let mut idt: Box<Idt> = Box::new(Idt::new());
    dump_ev(out, "new", &idt);
    dump_ev(out, "default", &Idt::default());
    // every vector through every path that may reach it
    for v in 0..=255u8 {
        for path in 0..6u64 {
            if path >= 2 && v < 32 {
                continue;
            }
            one_vector_program(out, &mut idt, &mut r, &lat, v, path);
        }
    }
    let c = idt.clone();
    out.emit(Ev::new("idt_clone").words("gates", &raw(&c)).words("orig", &raw(&idt)));
    // Index<u8> / IndexMut<u8>: pointer offset or refusal, named fields: offsets
    for v in 0..=255u8 {
        let base = &*idt as *const Idt as u64;
        let i = catch(|| &idt[v] as *const _ as u64 - base);
        let m = catch(|| &mut idt[v] as *mut _ as u64 - base);
        let f = named!(field_off, &*idt, v);
        out.emit(
            Ev::new("idt_index")
                .n("v", v as i64)
                .n("off", i.map(|x| x as i64).unwrap_or(-1))
                .n("off_mut", m.map(|x| x as i64).unwrap_or(-1))
                .n("field_off", f.map(|x| x as i64).unwrap_or(-1)),
        );
    }
    // range access
    let bnd: [u8; 10] = [0, 1, 30, 31, 32, 33, 100, 200, 254, 255];
    let forms = 32u64;
    if n >= 100_000 {
        for form in 0..forms {
            let stride = if form < 11 { 1 } else { 3 };
            for a in (0..=255u8).step_by(stride) {
                for b in 0..=255u8 {
                    range_case(out, &mut idt, form, a, b);
                }
            }
        }
    } else {
        for form in 0..forms {
            for &a in &bnd {
                for &b in &bnd {
                    range_case(out, &mut idt, form, a, b);
                }
            }
            for _ in 0..30 {
                range_case(out, &mut idt, form, r.below(256) as u8, r.below(256) as u8);
            }
        }
    }
    // reset and load
    idt.reset();
    dump_ev(out, "reset", &idt);
    cpu::drain();
    let ok = catch(|| unsafe { idt.load_unsafe() }).is_some();
    let ins = cpu::drain();
    out.emit(
        Ev::new("idt_load")
            .w("table", &*idt as *const Idt as u64)
            .str("k", if ok { "ok" } else { "panic" })
            .raw("instrs", &cpu::instrs_json(&ins)),
    );
}

// ------------------------------------------------------------------------------------------
// C13: set_general_handler and simulated interrupt delivery

use std::sync::atomic::{AtomicI32, AtomicU64, Ordering::SeqCst};
use x86_64::set_general_handler;
use x86_64::structures::idt::{InterruptStackFrame, InterruptStackFrameValue};

pub(crate) static PIPE_W: AtomicI32 = AtomicI32::new(-1);
static GH_CALLS: AtomicU64 = AtomicU64::new(0);

pub(crate) fn send(rec: &[u64; 10]) {
    let fd = PIPE_W.load(SeqCst);
    if fd >= 0 {
        unsafe { libc::write(fd, rec.as_ptr() as *const libc::c_void, 80) };
    }
}

/// the general handler: reports what it was called with (record type 1)
fn gh(frame: InterruptStackFrame, index: u8, err: Option<u64>) {
    let n = GH_CALLS.fetch_add(1, SeqCst) + 1;
    let f: &InterruptStackFrameValue = &frame;
    send(&[
        1,
        index as u64,
        err.is_some() as u64,
        err.unwrap_or(0),
        f.instruction_pointer.as_u64(),
        f.code_segment.0 as u64,
        f.cpu_flags.bits(),
        f.stack_pointer.as_u64(),
        f.stack_segment.0 as u64,
        n,
    ]);
    if index == 8 || index == 18 {
        // diverging vectors never return to the interrupted code
        unsafe { libc::_exit(0) };
    }
}
/// a second, distinguishable general handler (pre-populated tables)
fn gh_other(_frame: InterruptStackFrame, _index: u8, _err: Option<u64>) {
    send(&[9, 0, 0, 0, 0, 0, 0, 0, 0, 0]);
}

fn install_incl(idt: &mut Idt, lo: u8, hi: u8) {
    set_general_handler!(idt, gh, lo..=hi);
}
fn install_excl(idt: &mut Idt, lo: u8, hi: u8) {
    set_general_handler!(idt, gh, lo..hi);
}
fn install_to(idt: &mut Idt, hi: u8) {
    set_general_handler!(idt, gh, ..hi);
}
fn install_to_incl(idt: &mut Idt, hi: u8) {
    set_general_handler!(idt, gh, ..=hi);
}
fn install_from(idt: &mut Idt, lo: u8) {
    set_general_handler!(idt, gh, lo..);
}
fn install_all(idt: &mut Idt) {
    set_general_handler!(idt, gh);
}
fn install_other(idt: &mut Idt) {
    set_general_handler!(idt, gh_other);
}
fn install_lit(idt: &mut Idt, which: u8) {
    match which {
        0 => set_general_handler!(idt, gh, 0),
        1 => set_general_handler!(idt, gh, 14),
        2 => set_general_handler!(idt, gh, 47),
        _ => set_general_handler!(idt, gh, 255),
    }
}

fn sgh_case(out: &mut Out, form: &str, lo: u8, hi: u8, populated: bool, lit: u8) {
    let mut idt: Box<Idt> = Box::new(Idt::new());
    if populated {
        install_other(&mut idt);
    }
    let before = raw(&idt);
    // half-open forms are logged as the equivalent inclusive / exclusive pair
    let (form, via) = match form {
        "to" => ("excl", 1),
        "to_incl" => ("incl", 2),
        "from" => ("incl", 3),
        f => (f, 0),
    };
    let ok = catch(|| match (form, via) {
        (_, 1) => install_to(&mut idt, hi),
        (_, 2) => install_to_incl(&mut idt, hi),
        (_, 3) => install_from(&mut idt, lo),
        ("incl", _) => install_incl(&mut idt, lo, hi),
        ("excl", _) => install_excl(&mut idt, lo, hi),
        ("all", _) => install_all(&mut idt),
        _ => install_lit(&mut idt, lit),
    })
    .is_some();
    let after = raw(&idt);
    out.emit(
        Ev::new("sgh")
            .str("form", form)
            .n("lo", lo as i64)
            .n("hi", hi as i64)
            .n("populated", populated as i64)
            .n("cs", current_cs() as i64)
            .str("k", if ok { "ok" } else { "panic" })
            .words("before", &before)
            .words("after", &after),
    );
}

/// install, mask some of the installed gates (present bit cleared, handler address kept), install
/// again through the same call site: the range must be present again
fn sgh_reinstall(out: &mut Out, lo: u8, hi: u8, masked: &[u8]) {
    let mut idt: Box<Idt> = Box::new(Idt::new());
    let ok1 = catch(|| install_incl(&mut idt, lo, hi)).is_some();
    for &v in masked {
        if v >= 32 && v >= lo && v <= hi {
            let _ = catch(|| unsafe {
                let a = idt[v].handler_addr();
                idt[v].set_handler_addr(a).set_present(false);
            });
        }
    }
    let before = raw(&idt);
    let ok2 = catch(|| install_incl(&mut idt, lo, hi)).is_some();
    let after = raw(&idt);
    out.emit(
        Ev::new("sgh")
            .str("form", "incl")
            .n("lo", lo as i64)
            .n("hi", hi as i64)
            .n("populated", 2)
            .n("cs", current_cs() as i64)
            .str("k", if ok1 && ok2 { "ok" } else { "panic" })
            .words("before", &before)
            .words("after", &after),
    );
}

/// enter the gate's handler the way the CPU would: hardware frame (+ error code) on the
/// interrupted stack, jump to the gate's offset; the stub's own iretq resumes at label 2
#[inline(never)]
unsafe fn deliver(target: u64, has_err: u64, err: u64, flags: u64, scratch: u64, cs: u64, ss: u64) -> (u64, u64, u64) {
    let resumed_rsp: u64;
    let flags_after: u64;
    let resume_ip: u64;
    core::arch::asm!(
        "mov r12, rsp",
        "mov rsp, {scratch}",
        "mov r13, rsp",
        "and rsp, -16",
        "push {ss}",
        "push r13",
        "push {flags}",
        "push {cs}",
        "lea rax, [rip + 2f]",
        "push rax",
        "mov r13, rax",
        "test {has_err}, {has_err}",
        "jz 3f",
        "push {err}",
        "3:",
        "jmp {target}",
        "2:",
        "mov r14, rsp",
        "pushfq",
        "pop r15",
        "mov rsp, r12",
        scratch = in(reg) scratch,
        ss = in(reg) ss,
        cs = in(reg) cs,
        flags = in(reg) flags,
        has_err = in(reg) has_err,
        err = in(reg) err,
        target = in(reg) target,
        out("r14") resumed_rsp,
        out("r15") flags_after,
        out("rax") _,
        out("r12") _,
        out("r13") resume_ip,
        clobber_abi("C"),
    );
    (resumed_rsp, flags_after, resume_ip)
}

core::arch::global_asm!(
    ".global xv_landing",
    "xv_landing:",
    "mov rdi, rsp",
    "pushfq",
    "pop rsi",
    "and rsp, -16",
    "call xv_landing_report",
    "ud2",
);
extern "C" {
    fn xv_landing();
}
#[no_mangle]
extern "C" fn xv_landing_report(rsp: u64, flags: u64) -> ! {
    send(&[3, rsp, flags, 0, 0, 0, 0, 0, 0, 0]);
    unsafe { libc::_exit(0) }
}

fn user_flags() -> u64 {
    let f: u64;
    unsafe { core::arch::asm!("pushfq", "pop {}", out(reg) f, options(preserves_flags)) };
    f
}
fn current_ss() -> u64 {
    let s: u16;
    unsafe { core::arch::asm!("mov {0:x}, ss", out(reg) s, options(nomem, nostack, preserves_flags)) };
    s as u64
}

/// run `f` in a forked child and collect the 80-byte records it sends
fn in_child(f: impl FnOnce()) -> (Vec<[u64; 10]>, i32) {
    in_child_mode(0, f)
}

/// `mode`: the trap mode inside the child (0: every fault is a crash of the code under test)
pub(crate) fn in_child_mode(mode: u64, f: impl FnOnce()) -> (Vec<[u64; 10]>, i32) {
    let mut fds = [0i32; 2];
    unsafe {
        libc::pipe(fds.as_mut_ptr());
        let pid = libc::fork();
        if pid == 0 {
            libc::close(fds[0]);
            PIPE_W.store(fds[1], SeqCst);
            crate::trap::MODE.store(mode, SeqCst); // faults in the child are crashes of the code under test
            f();
            libc::_exit(0);
        }
        libc::close(fds[1]);
        let mut recs = Vec::new();
        loop {
            let mut r = [0u64; 10];
            let mut got = 0usize;
            while got < 80 {
                let n = libc::read(fds[0], (r.as_mut_ptr() as *mut u8).add(got) as *mut libc::c_void, 80 - got);
                if n <= 0 {
                    break;
                }
                got += n as usize;
            }
            if got < 80 {
                break;
            }
            recs.push(r);
        }
        libc::close(fds[0]);
        let mut st = 0i32;
        libc::waitpid(pid, &mut st, 0);
        (recs, st)
    }
}

pub fn run_idt13(out: &mut Out, seed: u64, n: u64) {
    let mut r = Rng::new(seed);
    // (1) which vectors become present
    let lat: [u8; 24] = [0, 1, 7, 8, 9, 14, 15, 16, 21, 22, 27, 28, 31, 32, 33, 47, 48, 63, 64, 100, 128, 254, 255, 200];
    if n >= 100_000 {
        for lo in 0..=255u8 {
            for hi in lo..=255u8 {
                sgh_case(out, "incl", lo, hi, (lo as u32 + hi as u32) % 5 == 0, 0);
            }
        }
    } else {
        for &lo in &lat {
            for &hi in &lat {
                sgh_case(out, "incl", lo, hi, r.chance(1, 3), 0);
                if r.chance(1, 2) {
                    sgh_case(out, "excl", lo, hi, r.chance(1, 3), 0);
                }
            }
        }
    }
    for _ in 0..40 {
        sgh_case(out, "excl", r.below(256) as u8, r.below(256) as u8, r.chance(1, 2), 0);
    }
    // empty and degenerate exclusive ranges at both ends, and the half-open forms
    for (lo, hi) in [(0u8, 0u8), (1, 0), (1, 1), (32, 32), (255, 255), (255, 0), (254, 255), (0, 1), (0, 255)] {
        sgh_case(out, "excl", lo, hi, false, 0);
        sgh_case(out, "excl", lo, hi, true, 0);
    }
    for &h in &[0u8, 1, 14, 31, 32, 33, 128, 254, 255] {
        sgh_case(out, "to", 0, h, h % 2 == 0, 0);
        sgh_case(out, "to_incl", 0, h, h % 2 == 1, 0);
        sgh_case(out, "from", h, 255, h % 3 == 0, 0);
    }
    sgh_case(out, "all", 0, 255, false, 0);
    sgh_case(out, "all", 0, 255, true, 0);
    for (lit, v) in [(0u8, 0u8), (1, 14), (2, 47), (3, 255)] {
        sgh_case(out, "lit", v, v, false, lit);
        sgh_case(out, "lit", v, v, true, lit);
    }
    sgh_reinstall(out, 32, 255, &[32, 33, 100, 255]);
    sgh_reinstall(out, 0, 255, &[32, 47, 128, 254]);
    sgh_reinstall(out, 40, 50, &[40, 45, 50, 60]);
    // (2) delivery into every installed stub.  Only in the dev profile: with optimisation and SSE
    // enabled (this host target; kernel targets disable SSE) LLVM emits an aligned 16-byte load
    // (movaps) from the interrupt frame of `extern "x86-interrupt"` functions whose alignment
    // assumption contradicts the one it uses for saving the xmm registers, so an optimised stub
    // faults on a hardware-format frame regardless of what the crate does.
    let deliver_stubs = cfg!(debug_assertions);
    let mut idt: Box<Idt> = Box::new(Idt::new());
    install_all(&mut idt);
    // a second table with another general handler, installed later: the stubs of the first
    // table must keep calling the first handler
    let mut idt2: Box<Idt> = Box::new(Idt::new());
    install_other(&mut idt2);
    std::hint::black_box(&idt2);
    let gates = raw(&idt);
    let (cs, ss) = (current_cs(), current_ss());
    let stacks: Vec<Vec<u8>> = (0..3).map(|_| vec![0u8; 1 << 16]).collect();
    let base_flags = user_flags() & !0x8d5; // clear CF PF AF ZF SF OF
    for v in 0..256usize {
        if !deliver_stubs {
            break;
        }
        let (lo, hi) = (gates[2 * v], gates[2 * v + 1]);
        let present = (lo >> 47) & 1;
        // gate offset decoded from the raw bytes by the harness (the specification re-derives it)
        let target = (lo & 0xffff) | ((lo >> 48) << 16) | (hi << 32);
        if present == 0 {
            out.emit(Ev::new("deliver").n("v", v as i64).str("k", "absent").w("lo", lo).w("hi", hi).w("target", target).n("cs", cs as i64).n("ss", ss as i64).raw("recs", "[]").n("status", 0).raw("cases", "[]"));
            continue;
        }
        let ncase = if v == 8 || v == 18 { 1 } else { 3 };
        let mut cases: Vec<[u64; 4]> = Vec::new();
        for c in 0..ncase {
            let err = match (v + c) % 5 {
                0 => 0,
                1 => 1,
                2 => u64::MAX,
                3 => 0x85,
                _ => r.next(),
            };
            let fl = base_flags | (r.next() & 0x8d5);
            let st = &stacks[c % 3];
            let top = (st.as_ptr() as u64 + (1 << 16) - 64 - 8 * (r.below(16))) & !7;
            cases.push([err, fl, top, 0]);
        }
        let has_err = matches!(v, 8 | 10 | 11 | 12 | 13 | 14 | 17 | 21 | 29 | 30) as u64;
        let cs2 = cases.clone();
        let (recs, status) = in_child(|| {
            for c in &cs2 {
                GH_CALLS.store(0, SeqCst);
                let (rr, fa, ip) = unsafe { deliver(target, has_err, c[0], c[1], c[2], cs, ss) };
                send(&[2, rr, fa, GH_CALLS.load(SeqCst), ip, 0, 0, 0, 0, 0]);
            }
        });
        let mut rj = String::from("[");
        for (i, rc) in recs.iter().enumerate() {
            if i > 0 {
                rj.push(',');
            }
            rj.push('[');
            for (j, x) in rc.iter().enumerate() {
                if j > 0 {
                    rj.push(',');
                }
                rj.push_str(&limbs(*x));
            }
            rj.push(']');
        }
        rj.push(']');
        let mut cj = String::from("[");
        for (i, c) in cases.iter().enumerate() {
            if i > 0 {
                cj.push(',');
            }
            cj.push_str(&format!("[{},{},{}]", limbs(c[0]), limbs(c[1]), limbs(c[2])));
        }
        cj.push(']');
        out.emit(
            Ev::new("deliver")
                .n("v", v as i64)
                .str("k", "present")
                .w("lo", lo)
                .w("hi", hi)
                .w("target", target)
                .n("cs", cs as i64)
                .n("ss", ss as i64)
                .raw("recs", &rj)
                .n("status", status as i64)
                .raw("cases", &cj),
        );
    }
    // (3) iretq on a frame value: lands at exactly ip / sp / flags
    for i in 0..24u64 {
        let st = &stacks[(i % 3) as usize];
        let sp = (st.as_ptr() as u64 + (1 << 16) - 128 - 8 * (r.below(32))) & !7;
        // arithmetic flags plus NT (bit 14) and ID (bit 21): all of them may be loaded in ring 3
        let fl = (base_flags & !0x20_4000) | (r.next() & 0x20_48d5);
        let ip = xv_landing as usize as u64;
        let (recs, status) = in_child(|| {
            let f = InterruptStackFrameValue::new(
                VirtAddr::new(ip),
                x86_64::structures::gdt::SegmentSelector(cs as u16),
                x86_64::registers::rflags::RFlags::from_bits_retain(fl),
                VirtAddr::new(sp),
                x86_64::structures::gdt::SegmentSelector(ss as u16),
            );
            unsafe { f.iretq() };
        });
        let (k, rsp, flg) = match recs.first() {
            Some(rc) if rc[0] == 3 => ("landed", rc[1], rc[2]),
            _ => ("lost", 0, 0),
        };
        out.emit(Ev::new("iretq").w("sp", sp).w("flags", fl).str("k", k).w("rsp", rsp).w("rflags", flg).n("status", status as i64).n("nrecs", recs.len() as i64));
    }
}

// ------------------------------------------------------------------------------------------
// Cross-structure scenario (Trace_Machine): GDT + TSS + IDT built through the API, handed to
// the (emulated) CPU, raw memory read back from the addresses the CPU was given.

pub fn run_machine(out: &mut Out, seed: u64, n: u64) {
    use x86_64::instructions::tables::load_tss;
    use x86_64::structures::gdt::{Descriptor, GlobalDescriptorTable, SegmentSelector};
    use x86_64::structures::tss::TaskStateSegment;
    let mut r = Rng::new(seed ^ 0x3ac1);
    let lat = lattice_canon();
    let scenarios = (n / 25).clamp(12, 400);
    for sc in 0..scenarios {
        // --- TSS with stacks
        let tss: &'static mut TaskStateSegment = Box::leak(Box::new(TaskStateSegment::new()));
        let mut ist = [0u64; 7];
        let mut pst = [0u64; 3];
        for (i, s) in ist.iter_mut().enumerate() {
            *s = canon(if r.chance(1, 2) { 0xffff_9000_0000_0000 + 0x10_0000 * i as u64 + r.below(0x1000) } else { *r.pick(&lat) });
            tss.interrupt_stack_table[i] = VirtAddr::new(*s);
        }
        for (i, s) in pst.iter_mut().enumerate() {
            *s = canon(if r.chance(1, 2) { 0xffff_a000_0000_0000 + 0x10_0000 * i as u64 + 8 * r.below(64) } else { *r.pick(&lat) });
            tss.privilege_stack_table[i] = VirtAddr::new(*s);
        }
        let tss: &'static TaskStateSegment = tss;
        let tss_addr = tss as *const _ as u64;
        // --- GDT: the five descriptors in a random order, sometimes with extra ones in between
        let gdt: &'static mut GlobalDescriptorTable<12> = Box::leak(Box::new(GlobalDescriptorTable::empty()));
        let mut order: Vec<u8> = vec![0, 1, 2, 3, 4];
        for i in (1..order.len()).rev() {
            order.swap(i, r.below(i as u64 + 1) as usize);
        }
        let (mut kcs, mut ucs, mut uds, mut ts) = (SegmentSelector(0), SegmentSelector(0), SegmentSelector(0), SegmentSelector(0));
        let built = catch(|| {
            for &d in &order {
                match d {
                    0 => kcs = gdt.append(Descriptor::kernel_code_segment()),
                    1 => {
                        gdt.append(Descriptor::kernel_data_segment());
                    }
                    2 => uds = gdt.append(Descriptor::user_data_segment()),
                    3 => ucs = gdt.append(Descriptor::user_code_segment()),
                    _ => ts = gdt.append(Descriptor::tss_segment(tss)),
                }
                if sc % 3 == 0 && d == 1 {
                    gdt.append(Descriptor::kernel_data_segment());
                }
            }
        })
        .is_some();
        let gdt: &'static GlobalDescriptorTable<12> = gdt;
        // --- IDT
        let idt: &'static mut Idt = Box::leak(Box::new(Idt::new()));
        let named: [u8; 23] = [0, 1, 2, 3, 4, 5, 6, 7, 8, 10, 11, 12, 13, 14, 16, 17, 18, 19, 20, 21, 28, 29, 30];
        let mut gates = String::from("[");
        let mut used: Vec<u8> = Vec::new();
        let ng = 4 + r.below(10);
        let mut ok_all = built;
        for _ in 0..ng {
            let v = if r.chance(1, 2) { *r.pick(&named) } else { 32 + r.below(224) as u8 };
            if used.contains(&v) {
                continue;
            }
            used.push(v);
            let handler = canon(if r.chance(1, 2) { 0xffff_ffff_8000_0000 + r.below(1 << 30) } else { *r.pick(&lat) });
            let istx = if r.chance(1, 2) { 1 + r.below(7) } else { 0 };
            let dpl = *r.pick(&[0u64, 0, 3, 3, 1]);
            let trap = r.chance(1, 3);
            let path = if v < 32 { 0 } else { 1 };
            let done = catch(|| {
                if let Some(o) = set_via(idt, path, v, VirtAddr::new(handler), 0, 0) {
                    let o = unsafe { &mut *o };
                    unsafe {
                        o.set_code_selector(kcs);
                        if istx > 0 {
                            o.set_stack_index(istx as u16 - 1);
                        }
                    }
                    o.set_privilege_level(pl(dpl));
                    if trap {
                        o.disable_interrupts(false);
                    }
                    true
                } else {
                    false
                }
            });
            if done != Some(true) {
                ok_all = false;
            }
            if gates.len() > 1 {
                gates.push(',');
            }
            gates.push_str(&format!("{{\"v\":{},\"handler\":{},\"ist\":{},\"dpl\":{},\"trap\":{}}}", v, limbs(handler), istx, dpl, trap as u8));
        }
        gates.push(']');
        let idt: &'static Idt = idt;
        // --- hand the structures to the CPU
        cpu::drain();
        // GDTR will point at the table built above: the emulated ltr may mark the TSS descriptor busy in it
        cpu::LTR_MARKS_BUSY.store(1, std::sync::atomic::Ordering::SeqCst);
        let loaded = catch(|| unsafe {
            if sc % 2 == 0 {
                gdt.load_unsafe();
                load_tss(ts);
                idt.load_unsafe();
            } else {
                gdt.load(); // the safe variants for 'static tables
                load_tss(ts);
                idt.load();
            }
        })
        .is_some();
        cpu::LTR_MARKS_BUSY.store(0, std::sync::atomic::Ordering::SeqCst);
        let ins = cpu::drain();
        let find = |m: u64| ins.iter().find(|x| x.m == m);
        let (gdt_base, gdt_limit) = find(cpu::M_LGDT).map(|x| (x.c, x.b)).unwrap_or((0, 0));
        let (idt_base, idt_limit) = find(cpu::M_LIDT).map(|x| (x.c, x.b)).unwrap_or((0, 0));
        let tr = find(cpu::M_LTR).map(|x| x.a).unwrap_or(0);
        // --- read back what the CPU would read.  Only addresses inside the objects built above
        // are dereferenced; anything else is logged as an empty image (and rejected).
        let gdt_addr = gdt.entries().as_ptr() as u64;
        let gdt_len = gdt.entries().len() as u64;
        let gdt_words: Vec<u64> = if gdt_base == gdt_addr && gdt_limit < 8 * 12 { (0..(gdt_limit + 1) / 8).map(|i| unsafe { core::ptr::read_volatile((gdt_base + 8 * i) as *const u64) }).collect() } else { vec![] };
        let idt_addr = idt as *const _ as u64;
        let idt_words: Vec<u64> = if idt_base == idt_addr && idt_limit < 4096 { (0..(idt_limit + 1) / 8).map(|i| unsafe { *((idt_base + 8 * i) as *const u64) }).collect() } else { vec![] };
        // the TSS base as the descriptor in the loaded GDT states it
        let ti = (tr / 8) as usize;
        let tss_base = if ti + 1 < gdt_words.len() {
            let (lo, hi) = (gdt_words[ti], gdt_words[ti + 1]);
            ((lo >> 16) & 0xff_ffff) | ((lo >> 56) << 24) | (hi << 32)
        } else {
            0
        };
        let tss_bytes: Vec<i64> = if tss_base == tss_addr { (0..104).map(|i| unsafe { *((tss_base + i) as *const u8) } as i64).collect() } else { vec![] };
        out.emit(
            Ev::new("machine")
                .str("k", if ok_all && loaded { "ok" } else { "panic" })
                .w("gdt_addr", gdt_addr)
                .n("gdt_len", gdt_len as i64)
                .w("gdt_base", gdt_base)
                .n("gdt_limit", gdt_limit as i64)
                .words("gdt", &gdt_words)
                .w("idt_addr", idt_addr)
                .w("idt_base", idt_base)
                .n("idt_limit", idt_limit as i64)
                .words("idt", &idt_words)
                .n("tr", tr as i64)
                .w("tss_addr", tss_addr)
                .ints("tss", &tss_bytes)
                .n("kcs", kcs.0 as i64)
                .n("ucs", ucs.0 as i64)
                .n("uds", uds.0 as i64)
                .n("ts", ts.0 as i64)
                .words("ist", &ist)
                .words("pst", &pst)
                .raw("gates", &gates)
                .raw("instrs", &cpu::instrs_json(&ins)),
        );
        // the leaked objects are small; free them to keep long runs bounded
        unsafe {
            drop(Box::from_raw(idt as *const Idt as *mut Idt));
            drop(Box::from_raw(gdt as *const GlobalDescriptorTable<12> as *mut GlobalDescriptorTable<12>));
            drop(Box::from_raw(tss as *const TaskStateSegment as *mut TaskStateSegment));
        }
    }
}
