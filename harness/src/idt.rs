//! Driver for the IDT: layout / gate encoding / access paths (C12) and general-handler stubs
//! with simulated interrupt delivery (C13).

use crate::cpu;
use crate::gen::*;
use crate::out::*;
use core::ops::Bound;
use x86_64::structures::idt::{EntryOptions, InterruptDescriptorTable};
use x86_64::{PrivilegeLevel, VirtAddr};

pub type Idt = InterruptDescriptorTable;

pub fn raw(idt: &Idt) -> Vec<u64> {
    let p = idt as *const Idt as *const u64;
    (0..512).map(|i| unsafe { core::ptr::read_volatile(p.add(i)) }).collect()
}

fn current_cs() -> u64 {
    let cs: u16;
    unsafe { core::arch::asm!("mov {0:x}, cs", out(reg) cs, options(nomem, nostack, preserves_flags)) };
    cs as u64
}

/// gates that differ between two dumps: (vectors, flat [lo, hi] words)
fn changed(before: &[u64], after: &[u64]) -> (Vec<i64>, Vec<u64>) {
    let mut vs = Vec::new();
    let mut ws = Vec::new();
    for v in 0..256 {
        if before[2 * v] != after[2 * v] || before[2 * v + 1] != after[2 * v + 1] {
            vs.push(v as i64);
            ws.push(after[2 * v]);
            ws.push(after[2 * v + 1]);
        }
    }
    (vs, ws)
}

macro_rules! field_set {
    ($idt:expr, $v:expr, $addr:expr, $( ($n:expr, $f:ident) ),*) => {
        match $v {
            $( $n => Some(unsafe { $idt.$f.set_handler_addr($addr) } as *mut EntryOptions), )*
            _ => None,
        }
    };
}
macro_rules! field_addr {
    ($idt:expr, $v:expr, $( ($n:expr, $f:ident) ),*) => {
        match $v {
            $( $n => Some($idt.$f.handler_addr().as_u64()), )*
            _ => None,
        }
    };
}
macro_rules! field_off {
    ($idt:expr, $v:expr, $( ($n:expr, $f:ident) ),*) => {
        match $v {
            $( $n => Some(core::ptr::addr_of!($idt.$f) as u64 - $idt as *const Idt as u64), )*
            _ => None,
        }
    };
}
macro_rules! named {
    ($m:ident, $idt:expr, $v:expr $(, $x:expr)*) => {
        $m!($idt, $v $(, $x)*,
            (0, divide_error), (1, debug), (2, non_maskable_interrupt), (3, breakpoint), (4, overflow),
            (5, bound_range_exceeded), (6, invalid_opcode), (7, device_not_available), (8, double_fault),
            (10, invalid_tss), (11, segment_not_present), (12, stack_segment_fault),
            (13, general_protection_fault), (14, page_fault), (16, x87_floating_point),
            (17, alignment_check), (18, machine_check), (19, simd_floating_point), (20, virtualization),
            (21, cp_protection_exception), (28, hv_injection_exception),
            (29, vmm_communication_exception), (30, security_exception))
    };
}

/// set a handler address for vector v through the given access path; returns the options
fn set_via(idt: &mut Idt, path: u64, v: u8, addr: VirtAddr, a: u8, b: u8) -> Option<*mut EntryOptions> {
    match path {
        0 => named!(field_set, idt, v, addr),
        1 => Some(unsafe { idt[v].set_handler_addr(addr) } as *mut EntryOptions),
        2 => Some(unsafe { idt.slice_mut(a..=b)[(v - a) as usize].set_handler_addr(addr) } as *mut EntryOptions),
        3 => Some(unsafe { idt[a..=b][(v - a) as usize].set_handler_addr(addr) } as *mut EntryOptions),
        4 => Some(unsafe { idt[a..][(v - a) as usize].set_handler_addr(addr) } as *mut EntryOptions),
        _ => Some(unsafe { idt[(Bound::Included(a), Bound::Unbounded)][(v - a) as usize].set_handler_addr(addr) } as *mut EntryOptions),
    }
}
const PATHS: [&str; 6] = ["field", "index", "slice_mut", "range_inclusive", "range_from", "bound_pair"];

fn read_addr_via(idt: &Idt, path: u64, v: u8, a: u8, b: u8) -> Option<u64> {
    match path {
        0 => named!(field_addr, idt, v),
        1 => catch(|| idt[v].handler_addr().as_u64()),
        2 => catch(|| idt.slice(a..=b)[(v - a) as usize].handler_addr().as_u64()),
        _ => catch(|| idt[a..=b][(v - a) as usize].handler_addr().as_u64()),
    }
}

fn dump_ev(out: &mut Out, kind: &str, idt: &Idt) {
    out.emit(Ev::new("idt_dump").str("kind", kind).words("gates", &raw(idt)).n("size", core::mem::size_of::<Idt>() as i64).n("align", core::mem::align_of::<Idt>() as i64));
}

fn pl(n: u64) -> PrivilegeLevel {
    match n {
        0 => PrivilegeLevel::Ring0,
        1 => PrivilegeLevel::Ring1,
        2 => PrivilegeLevel::Ring2,
        _ => PrivilegeLevel::Ring3,
    }
}

fn one_vector_program(out: &mut Out, idt: &mut Idt, r: &mut Rng, lat: &[u64], v: u8, path: u64) {
    let addr = VirtAddr::new_truncate(any64(r, lat));
    let (a, b) = if v >= 32 { (32 + r.below((v - 32) as u64 + 1) as u8, v + r.below((255 - v) as u64 + 1) as u8) } else { (32, 255) };
    let before = raw(idt);
    let opt = catch(|| set_via(idt, path, v, addr, a, b));
    let after = raw(idt);
    let (vs, ws) = changed(&before, &after);
    let k = match &opt {
        Some(Some(_)) => "ok",
        Some(None) => "nopath",
        None => "panic",
    };
    let back = read_addr_via(idt, path, v, a, b);
    out.emit(
        Ev::new("idt_set")
            .str("path", PATHS[path as usize])
            .n("v", v as i64)
            .w("addr", addr.as_u64())
            .n("cs", current_cs() as i64)
            .str("k", k)
            .ints("vs", &vs)
            .words("ws", &ws)
            .w("back", back.unwrap_or(u64::MAX)),
    );
    let o = match opt {
        Some(Some(o)) => o,
        _ => return,
    };
    // random option setters through the reference the call returned
    for _ in 0..(2 + r.below(6)) {
        let before = raw(idt);
        let (name, arg): (&str, u64) = match r.below(5) {
            0 => ("set_present", r.below(2)),
            1 => ("disable_interrupts", r.below(2)),
            2 => ("set_privilege_level", r.below(4)),
            3 => ("set_stack_index", r.below(7)),
            _ => ("set_code_selector", r.below(65536)),
        };
        let ok = catch(|| unsafe {
            let o = &mut *o;
            match name {
                "set_present" => {
                    o.set_present(arg == 1);
                }
                "disable_interrupts" => {
                    o.disable_interrupts(arg == 1);
                }
                "set_privilege_level" => {
                    o.set_privilege_level(pl(arg));
                }
                "set_stack_index" => {
                    o.set_stack_index(arg as u16);
                }
                _ => {
                    o.set_code_selector(x86_64::structures::gdt::SegmentSelector(arg as u16));
                }
            }
        })
        .is_some();
        let after = raw(idt);
        let (vs, ws) = changed(&before, &after);
        let back = read_addr_via(idt, if path == 0 { 0 } else if v >= 32 { 1 } else { path.min(1) }, v, a, b);
        out.emit(
            Ev::new("idt_opt")
                .str("setter", name)
                .n("v", v as i64)
                .n("arg", arg as i64)
                .str("k", if ok { "ok" } else { "panic" })
                .ints("vs", &vs)
                .words("ws", &ws)
                .w("back", back.unwrap_or(u64::MAX)),
        );
    }
}

fn range_case(out: &mut Out, idt: &mut Idt, form: u64, a: u8, b: u8) {
    let base = idt as *const Idt as u64;
    let rep = |s: &[x86_64::structures::idt::Entry<x86_64::structures::idt::HandlerFunc>]| (s.as_ptr() as u64 - base, s.len());
    // (start kind, end kind) of the form as seen by RangeBounds
    let (sk, ek, name): (&str, &str, &str) = match form {
        0 => ("incl", "excl", "Range<u8>"),
        1 => ("incl", "excl", "Range<&u8>"),
        2 => ("incl", "none", "RangeFrom<u8>"),
        3 => ("incl", "none", "RangeFrom<&u8>"),
        4 => ("incl", "incl", "RangeInclusive<u8>"),
        5 => ("incl", "incl", "RangeInclusive<&u8>"),
        6 => ("none", "excl", "RangeTo<u8>"),
        7 => ("none", "excl", "RangeTo<&u8>"),
        8 => ("none", "incl", "RangeToInclusive<u8>"),
        9 => ("none", "incl", "RangeToInclusive<&u8>"),
        10 => ("none", "none", "RangeFull"),
        11..=19 => (["incl", "excl", "none"][((form - 11) / 3) as usize], ["incl", "excl", "none"][((form - 11) % 3) as usize], "(Bound<u8>,Bound<u8>)"),
        20..=28 => (["incl", "excl", "none"][((form - 20) / 3) as usize], ["incl", "excl", "none"][((form - 20) % 3) as usize], "(Bound<&u8>,Bound<&u8>)"),
        29 => ("incl", "incl", "slice(RangeInclusive)"),
        30 => ("excl", "excl", "slice_mut((Bound,Bound))"),
        _ => ("incl", "excl", "slice(Range)"),
    };
    let mk = |k: &str, x: u8| match k {
        "incl" => Bound::Included(x),
        "excl" => Bound::Excluded(x),
        _ => Bound::Unbounded,
    };
    let mkr = |k: &str, x: &'static u8| match k {
        "incl" => Bound::Included(x),
        "excl" => Bound::Excluded(x),
        _ => Bound::Unbounded,
    };
    // references with a long enough lifetime for the &u8 forms
    static BYTES: [u8; 256] = {
        let mut t = [0u8; 256];
        let mut i = 0;
        while i < 256 {
            t[i] = i as u8;
            i += 1;
        }
        t
    };
    let (ra, rb): (&'static u8, &'static u8) = (&BYTES[a as usize], &BYTES[b as usize]);
    let r = catch(|| match form {
        0 => rep(&idt[a..b]),
        1 => rep(&idt[ra..rb]),
        2 => rep(&idt[a..]),
        3 => rep(&idt[ra..]),
        4 => rep(&idt[a..=b]),
        5 => rep(&idt[ra..=rb]),
        6 => rep(&idt[..b]),
        7 => rep(&idt[..rb]),
        8 => rep(&idt[..=b]),
        9 => rep(&idt[..=rb]),
        10 => rep(&idt[..]),
        11..=19 => rep(&idt[(mk(sk, a), mk(ek, b))]),
        20..=28 => rep(&idt[(mkr(sk, ra), mkr(ek, rb))]),
        29 => rep(idt.slice(a..=b)),
        30 => rep(idt.slice_mut((Bound::Excluded(a), Bound::Excluded(b)))),
        _ => rep(idt.slice(a..b)),
    });
    let rm = catch(|| match form {
        0 => rep(&mut idt[a..b]),
        4 => rep(&mut idt[a..=b]),
        10 => rep(&mut idt[..]),
        11..=19 => rep(&mut idt[(mk(sk, a), mk(ek, b))]),
        _ => (u64::MAX, 0),
    });
    let (k, off, len) = match r {
        Some((o, l)) => ("ok", o as i64, l as i64),
        None => ("panic", 0, 0),
    };
    let mut_same = match (r, rm) {
        (Some(x), Some(y)) => y.0 == u64::MAX || x == y,
        (None, None) => true,
        (None, Some(y)) => y.0 == u64::MAX,
        _ => false,
    };
    out.emit(
        Ev::new("idt_range")
            .str("form", name)
            .str("sk", sk)
            .n("a", a as i64)
            .str("ek", ek)
            .n("b", b as i64)
            .str("k", k)
            .n("off", off)
            .n("len", len)
            .n("mut_same", mut_same as i64),
    );
}

pub fn run_idt(out: &mut Out, seed: u64, n: u64) {
    cpu::reset_regs();
    let lat = lattice_canon();
    let mut r = Rng::new(seed);
    let mut idt: Box<Idt> = Box::new(Idt::new());
    dump_ev(out, "new", &idt);
    dump_ev(out, "default", &Idt::default());
    // every vector through every path that may reach it
    for v in 0..=255u8 {
        for path in 0..6u64 {
            if path >= 2 && v < 32 {
                continue;
            }
            one_vector_program(out, &mut idt, &mut r, &lat, v, path);
        }
    }
    let c = idt.clone();
    out.emit(Ev::new("idt_clone").words("gates", &raw(&c)).words("orig", &raw(&idt)));
    // Index<u8> / IndexMut<u8>: pointer offset or refusal, named fields: offsets
    for v in 0..=255u8 {
        let base = &*idt as *const Idt as u64;
        let i = catch(|| &idt[v] as *const _ as u64 - base);
        let m = catch(|| &mut idt[v] as *mut _ as u64 - base);
        let f = named!(field_off, &*idt, v);
        out.emit(
            Ev::new("idt_index")
                .n("v", v as i64)
                .n("off", i.map(|x| x as i64).unwrap_or(-1))
                .n("off_mut", m.map(|x| x as i64).unwrap_or(-1))
                .n("field_off", f.map(|x| x as i64).unwrap_or(-1)),
        );
    }
    // range access
    let bnd: [u8; 10] = [0, 1, 30, 31, 32, 33, 100, 200, 254, 255];
    let forms = 32u64;
    if n >= 100_000 {
        for form in 0..forms {
            let stride = if form < 11 { 1 } else { 3 };
            for a in (0..=255u8).step_by(stride) {
                for b in 0..=255u8 {
                    range_case(out, &mut idt, form, a, b);
                }
            }
        }
    } else {
        for form in 0..forms {
            for &a in &bnd {
                for &b in &bnd {
                    range_case(out, &mut idt, form, a, b);
                }
            }
            for _ in 0..30 {
                range_case(out, &mut idt, form, r.below(256) as u8, r.below(256) as u8);
            }
        }
    }
    // reset and load
    idt.reset();
    dump_ev(out, "reset", &idt);
    cpu::drain();
    let ok = catch(|| unsafe { idt.load_unsafe() }).is_some();
    let ins = cpu::drain();
    out.emit(
        Ev::new("idt_load")
            .w("table", &*idt as *const Idt as u64)
            .str("k", if ok { "ok" } else { "panic" })
            .raw("instrs", &cpu::instrs_json(&ins)),
    );
}
