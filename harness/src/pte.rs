//! Driver for page-table entries and tables (C08).

use crate::gen::*;
use crate::out::*;
use x86_64::structures::paging::page_table::{PageTableEntry, PageTableFlags};
use x86_64::structures::paging::{PageTable, PageTableIndex, PhysFrame, Size4KiB};
use x86_64::PhysAddr;

fn raw_of(e: &PageTableEntry) -> u64 {
    // PageTableEntry is repr(transparent) over u64
    unsafe { *(e as *const PageTableEntry as *const u64) }
}

const FLAG_BITS: u64 = 0xfff0_0000_0000_0fff;

fn observe(out: &mut Out, op: &str, before: u64, a: u64, f: u64, k: &str, e: &PageTableEntry) {
    let frame = match catch(|| e.frame()) {
        Some(Ok(fr)) => Res::Ok(fr.start_address().as_u64()),
        Some(Err(_)) => Res::Err,
        None => Res::Panic,
    };
    let addr = match catch(|| e.addr()) {
        Some(p) => Res::Ok(p.as_u64()),
        None => Res::Panic,
    };
    out.emit(
        Ev::new(op)
            .w("before", before)
            .w("a", a)
            .w("f", f)
            .str("k", k)
            .w("after", raw_of(e))
            .raw("addr", &addr.json())
            .w("flags", e.flags().bits())
            .n("unused", e.is_unused() as i64)
            .raw("frame", &frame.json()),
    );
}

fn flagsets(r: &mut Rng) -> Vec<u64> {
    let mut v = vec![0, FLAG_BITS, 1, 3, 0x8000_0000_0000_0001];
    for b in (0..12).chain(52..64) {
        v.push(1u64 << b);
    }
    for _ in 0..8 {
        v.push(r.next() & FLAG_BITS);
    }
    v
}

pub fn run_pte(out: &mut Out, seed: u64, n: u64) {
    let mut r = Rng::new(seed);
    let fs = flagsets(&mut r);
    let mut addrs: Vec<u64> = lattice_phys().into_iter().map(|a| a & !0xfff).collect();
    addrs.sort_unstable();
    addrs.dedup();
    // layout facts
    out.emit(
        Ev::new("pte_layout")
            .n("entry_size", core::mem::size_of::<PageTableEntry>() as i64)
            .n("table_size", core::mem::size_of::<PageTable>() as i64)
            .n("table_align", core::mem::align_of::<PageTable>() as i64),
    );
    {
        let e = PageTableEntry::new();
        observe(out, "pte_new", 0, 0, 0, "ok", &e);
        let d = PageTableEntry::default();
        observe(out, "pte_new", 0, 0, 0, "ok", &d);
    }
    // programs on one entry
    let mut e = PageTableEntry::new();
    let mut steps = 0u64;
    while steps < n {
        steps += 1;
        let before = raw_of(&e);
        match r.below(10) {
            0..=2 => {
                let a = if r.chance(9, 10) { *r.pick(&addrs) } else { r.next() & 0x000f_ffff_ffff_ffff };
                let f = *r.pick(&fs);
                let k = catch(|| e.set_addr(unsafe { PhysAddr::new_unsafe(a) }, PageTableFlags::from_bits_retain(f)));
                observe(out, "pte_set_addr", before, a, f, if k.is_some() { "ok" } else { "panic" }, &e);
            }
            3 | 4 => {
                let a = *r.pick(&addrs);
                let f = *r.pick(&fs);
                let fr: PhysFrame<Size4KiB> = unsafe { PhysFrame::from_start_address_unchecked(PhysAddr::new_unsafe(a)) };
                let k = catch(|| e.set_frame(fr, PageTableFlags::from_bits_retain(f)));
                observe(out, "pte_set_frame", before, a, f, if k.is_some() { "ok" } else { "panic" }, &e);
            }
            5..=7 => {
                let f = *r.pick(&fs);
                let k = catch(|| e.set_flags(PageTableFlags::from_bits_retain(f)));
                observe(out, "pte_set_flags", before, 0, f, if k.is_some() { "ok" } else { "panic" }, &e);
            }
            8 => {
                e.set_unused();
                observe(out, "pte_set_unused", before, 0, 0, "ok", &e);
            }
            _ => {
                let c = e.clone();
                observe(out, "pte_clone", before, 0, 0, "ok", &c);
            }
        }
    }
    // tables: every slot through every access path
    let mut t: Box<PageTable> = Box::new(PageTable::new());
    let base = &*t as *const PageTable as u64;
    out.emit(Ev::new("tbl_new").n("empty", t.is_empty() as i64).n("aligned", (base % 4096 == 0) as i64).n("nonzero_bytes", nonzero_bytes(&t) as i64));
    for i in 0..512usize {
        let v = (*r.pick(&addrs)) | (*r.pick(&fs)) | 1;
        let via = i % 3;
        match via {
            0 => t[i].set_addr(unsafe { PhysAddr::new_unsafe(v & 0x000f_ffff_ffff_f000) }, PageTableFlags::from_bits_retain(v & FLAG_BITS)),
            1 => t[PageTableIndex::new(i as u16)].set_addr(unsafe { PhysAddr::new_unsafe(v & 0x000f_ffff_ffff_f000) }, PageTableFlags::from_bits_retain(v & FLAG_BITS)),
            _ => {
                // (no unwrap on anything the code under test returns: a missing item is data)
                if let Some(ent) = t.iter_mut().nth(i) {
                    ent.set_addr(unsafe { PhysAddr::new_unsafe(v & 0x000f_ffff_ffff_f000) }, PageTableFlags::from_bits_retain(v & FLAG_BITS));
                }
            }
        }
        let r_usize = raw_of(&t[i]);
        let r_idx = raw_of(&t[PageTableIndex::new(i as u16)]);
        let r_iter = t.iter().nth(i).map(raw_of).unwrap_or(u64::MAX);
        let r_itermut = t.iter_mut().nth(i).map(|e| raw_of(e)).unwrap_or(u64::MAX);
        let p = &*t as *const PageTable as *const u8;
        let bytes: Vec<i64> = (0..8).map(|j| unsafe { *p.add(8 * i + j) } as i64).collect();
        let slot_addr = &t[i] as *const PageTableEntry as u64 - base;
        out.emit(
            Ev::new("tbl_slot")
                .n("i", i as i64)
                .n("via", via as i64)
                .w("v", v)
                .words("reads", &[r_usize, r_idx, r_iter, r_itermut])
                .ints("bytes", &bytes)
                .n("offset", slot_addr as i64)
                .n("iter_len", t.iter().count() as i64)
                .n("iter_mut_len", t.iter_mut().count() as i64)
                .n("empty", t.is_empty() as i64),
        );
    }
    // iterator adaptors over the full table: nth consumes, skip / step_by visit the right slots
    {
        let vals: Vec<u64> = (0..512).map(|i| raw_of(&t[i])).collect();
        let none = u64::MAX;
        for &(k, st) in &[(0usize, 2usize), (1, 3), (7, 7), (255, 64), (256, 100), (510, 511), (511, 512), (100, 1)] {
            let (a, b) = {
                let mut it = t.iter();
                let a = it.nth(k).map(raw_of).unwrap_or(none);
                let b = it.next().map(raw_of).unwrap_or(none);
                (a, b)
            };
            let c = t.iter().skip(k).next().map(raw_of).unwrap_or(none);
            let d: Vec<u64> = t.iter().step_by(st).take(5).map(raw_of).collect();
            let n_after: usize = { let mut it = t.iter(); let _ = it.nth(k); it.count() };
            let mut im = t.iter_mut();
            let am = im.nth(k).map(|e| raw_of(e)).unwrap_or(none);
            let bm = im.next().map(|e| raw_of(e)).unwrap_or(none);
            out.emit(Ev::new("tbl_iter").n("k", k as i64).n("step", st as i64).words("vals", &vals).words("got", &[a, b, c, am, bm]).words("stepped", &d).n("rest", n_after as i64));
        }
    }
    t.zero();
    out.emit(Ev::new("tbl_zero").n("empty", t.is_empty() as i64).n("nonzero_bytes", nonzero_bytes(&t) as i64));
    // is_empty notices a single non-zero slot anywhere; zero() clears every slot
    for i in 0..512usize {
        let mut t2 = PageTable::new();
        // a lone flag bit, a lone address bit (no flag at all), or both
        match i % 3 {
            0 => t2[i].set_flags(PageTableFlags::from_bits_retain(1u64 << (52 + (i % 12)))),
            1 => t2[i].set_addr(PhysAddr::new(1u64 << (13 + (i % 39))), PageTableFlags::empty()),
            _ => t2[i].set_addr(PhysAddr::new(1u64 << (12 + (i % 40))), PageTableFlags::from_bits_retain(1u64 << (i % 12))),
        }
        let e1 = t2.is_empty();
        t2.zero();
        out.emit(Ev::new("tbl_one").n("i", i as i64).n("empty_before", e1 as i64).n("empty_after", t2.is_empty() as i64).n("nonzero_bytes", nonzero_bytes(&t2) as i64));
    }
    let c = t.clone();
    out.emit(Ev::new("tbl_new").n("empty", c.is_empty() as i64).n("aligned", ((&*c as *const PageTable as u64) % 4096 == 0) as i64).n("nonzero_bytes", nonzero_bytes(&c) as i64));
    let d = PageTable::default();
    out.emit(Ev::new("tbl_new").n("empty", d.is_empty() as i64).n("aligned", ((&d as *const PageTable as u64) % 4096 == 0) as i64).n("nonzero_bytes", nonzero_bytes(&d) as i64));
}

fn nonzero_bytes(t: &PageTable) -> usize {
    let p = t as *const PageTable as *const u8;
    (0..4096).filter(|&i| unsafe { *p.add(i) } != 0).count()
}
