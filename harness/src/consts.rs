//! Driver for named constants and small codecs (C19): every named flag of every flags type,
//! associated constants, MSR numbers (observed as ECX of the trapped rdmsr), enum
//! discriminants, and the small value types over their full input domains.

use crate::cpu;
use crate::gen::*;
use crate::out::*;
use core::convert::TryFrom;
use x86_64::registers::control::{Cr0Flags, Cr3Flags, Cr4Flags};
use x86_64::registers::debug::{
    BreakpointCondition, BreakpointSize, DebugAddressRegisterNumber, Dr6Flags, Dr7Flags, Dr7Value,
};
use x86_64::registers::model_specific::{
    ApicBase, ApicBaseFlags, CetFlags, Efer, EferFlags, FsBase, GsBase, KernelGsBase, LStar, Pat, PatMemoryType,
    SCet, SFMask, Star, UCet,
};
use x86_64::registers::mxcsr::MxCsr;
use x86_64::registers::rflags::RFlags;
use x86_64::registers::xcontrol::XCr0Flags;
use x86_64::structures::gdt::{DescriptorFlags, SegmentSelector};
use x86_64::structures::idt::{DescriptorTable, ExceptionVector, PageFaultErrorCode, SelectorErrorCode};
use x86_64::structures::paging::{PageSize, PageTableFlags, Size1GiB, Size2MiB, Size4KiB};
use x86_64::PrivilegeLevel;

fn c(out: &mut Out, g: &str, n: &str, v: u64) {
    out.emit(Ev::new("const").str("g", g).str("n", n).w("v", v));
}

macro_rules! flags {
    ($out:expr, $T:ident) => {
        // every declared name, also names whose bits coincide with another name's
        for f in <$T as bitflags::Flags>::FLAGS.iter() {
            if !f.name().is_empty() {
                c($out, stringify!($T), f.name(), f.value().bits() as u64);
            }
        }
        c($out, stringify!($T), "@all", $T::all().bits() as u64);
    };
}

pub fn run_consts(out: &mut Out, seed: u64, _n: u64) {
    cpu::reset_regs();
    flags!(out, PageTableFlags);
    flags!(out, DescriptorFlags);
    flags!(out, RFlags);
    flags!(out, Cr0Flags);
    flags!(out, Cr3Flags);
    flags!(out, Cr4Flags);
    flags!(out, EferFlags);
    flags!(out, XCr0Flags);
    flags!(out, MxCsr);
    flags!(out, Dr6Flags);
    flags!(out, Dr7Flags);
    flags!(out, CetFlags);
    flags!(out, ApicBaseFlags);
    flags!(out, PageFaultErrorCode);
    // aliases / composite names that the name table does not yield
    c(out, "PageTableFlags", "PAT_4KIB_PAGE", PageTableFlags::PAT_4KIB_PAGE.bits());
    c(out, "MxCsr", "ROUNDING_CONTROL_ZERO", MxCsr::ROUNDING_CONTROL_ZERO.bits() as u64);
    c(out, "Dr6Flags", "TRAP", Dr6Flags::TRAP.bits());
    for (n, v) in [
        ("KERNEL_DATA", DescriptorFlags::KERNEL_DATA),
        ("KERNEL_CODE32", DescriptorFlags::KERNEL_CODE32),
        ("KERNEL_CODE64", DescriptorFlags::KERNEL_CODE64),
        ("USER_DATA", DescriptorFlags::USER_DATA),
        ("USER_CODE32", DescriptorFlags::USER_CODE32),
        ("USER_CODE64", DescriptorFlags::USER_CODE64),
    ] {
        c(out, "DescriptorFlags", n, v.bits());
    }
    // MSR numbers: the number is private; it is the ECX of the rdmsr the object executes
    macro_rules! msr {
        ($T:ident) => {{
            cpu::drain();
            let _ = unsafe { $T::MSR.read() };
            let ins = cpu::drain();
            c(out, "Msr", stringify!($T), ins.first().map(|i| i.a).unwrap_or(u64::MAX));
        }};
    }
    msr!(Efer);
    msr!(FsBase);
    msr!(GsBase);
    msr!(KernelGsBase);
    msr!(Star);
    msr!(LStar);
    msr!(SFMask);
    msr!(UCet);
    msr!(SCet);
    msr!(Pat);
    msr!(ApicBase);
    // sizes, defaults, enums
    c(out, "PageSize", "Size4KiB", Size4KiB::SIZE);
    c(out, "PageSize", "Size2MiB", Size2MiB::SIZE);
    c(out, "PageSize", "Size1GiB", Size1GiB::SIZE);
    c(out, "MxCsr", "@default", MxCsr::default().bits() as u64);
    for (n, v) in [
        ("Division", ExceptionVector::Division),
        ("Debug", ExceptionVector::Debug),
        ("NonMaskableInterrupt", ExceptionVector::NonMaskableInterrupt),
        ("Breakpoint", ExceptionVector::Breakpoint),
        ("Overflow", ExceptionVector::Overflow),
        ("BoundRange", ExceptionVector::BoundRange),
        ("InvalidOpcode", ExceptionVector::InvalidOpcode),
        ("DeviceNotAvailable", ExceptionVector::DeviceNotAvailable),
        ("Double", ExceptionVector::Double),
        ("InvalidTss", ExceptionVector::InvalidTss),
        ("SegmentNotPresent", ExceptionVector::SegmentNotPresent),
        ("Stack", ExceptionVector::Stack),
        ("GeneralProtection", ExceptionVector::GeneralProtection),
        ("Page", ExceptionVector::Page),
        ("X87FloatingPoint", ExceptionVector::X87FloatingPoint),
        ("AlignmentCheck", ExceptionVector::AlignmentCheck),
        ("MachineCheck", ExceptionVector::MachineCheck),
        ("SimdFloatingPoint", ExceptionVector::SimdFloatingPoint),
        ("Virtualization", ExceptionVector::Virtualization),
        ("ControlProtection", ExceptionVector::ControlProtection),
        ("HypervisorInjection", ExceptionVector::HypervisorInjection),
        ("VmmCommunication", ExceptionVector::VmmCommunication),
        ("Security", ExceptionVector::Security),
    ] {
        c(out, "ExceptionVector", n, v as u8 as u64);
    }
    for (n, v) in [
        ("StrongUncacheable", PatMemoryType::StrongUncacheable),
        ("WriteCombining", PatMemoryType::WriteCombining),
        ("WriteThrough", PatMemoryType::WriteThrough),
        ("WriteProtected", PatMemoryType::WriteProtected),
        ("WriteBack", PatMemoryType::WriteBack),
        ("Uncacheable", PatMemoryType::Uncacheable),
    ] {
        c(out, "PatMemoryType", n, v.bits() as u64);
    }
    {
        let mut b = [0u8; 8];
        for (i, e) in Pat::DEFAULT.iter().enumerate() {
            b[i] = e.bits();
        }
        c(out, "PatMemoryType", "@Pat::DEFAULT", u64::from_le_bytes(b));
    }
    for (n, v) in [("Ring0", PrivilegeLevel::Ring0), ("Ring1", PrivilegeLevel::Ring1), ("Ring2", PrivilegeLevel::Ring2), ("Ring3", PrivilegeLevel::Ring3)] {
        c(out, "PrivilegeLevel", n, v as u8 as u64);
    }
    for (n, v) in [
        ("InstructionExecution", BreakpointCondition::InstructionExecution),
        ("DataWrites", BreakpointCondition::DataWrites),
        ("IoReadsWrites", BreakpointCondition::IoReadsWrites),
        ("DataReadsWrites", BreakpointCondition::DataReadsWrites),
    ] {
        c(out, "BreakpointCondition", n, v as u8 as u64);
    }
    for (n, v) in [("Length1B", BreakpointSize::Length1B), ("Length2B", BreakpointSize::Length2B), ("Length8B", BreakpointSize::Length8B), ("Length4B", BreakpointSize::Length4B)] {
        c(out, "BreakpointSize", n, v as u8 as u64);
    }
    for (i, f) in [Dr6Flags::TRAP0, Dr6Flags::TRAP1, Dr6Flags::TRAP2, Dr6Flags::TRAP3].iter().enumerate() {
        let nn = DebugAddressRegisterNumber::new(i as u8).unwrap_or(DebugAddressRegisterNumber::Dr0);
        c(out, "Dr6Flags", &format!("trap({})", i), Dr6Flags::trap(nn).bits());
        let _ = f;
        c(out, "Dr7Flags", &format!("local_breakpoint_enable({})", i), Dr7Flags::local_breakpoint_enable(nn).bits());
        c(out, "Dr7Flags", &format!("global_breakpoint_enable({})", i), Dr7Flags::global_breakpoint_enable(nn).bits());
    }
    c(out, "SegmentSelector", "NULL", SegmentSelector::NULL.0 as u64);
    out.emit(Ev::new("const_end"));

    // ---- codecs over their full domains ----
    // segment selectors: all 65536 raw values, and new(index, rpl) for every index x level
    for base in (0..65536u32).step_by(256) {
        let idx: Vec<i64> = (0..256).map(|d| SegmentSelector((base + d) as u16).index() as i64).collect();
        let rpl: Vec<i64> = (0..256).map(|d| catch(|| SegmentSelector((base + d) as u16).rpl() as i64).unwrap_or(-1)).collect();
        let set: Vec<i64> = (0..256)
            .map(|d| {
                let mut s = SegmentSelector((base + d) as u16);
                s.set_rpl(pl(((base + d) / 7 % 4) as u64));
                s.0 as i64
            })
            .collect();
        out.emit(Ev::new("sel_block").n("base", base as i64).ints("index", &idx).ints("rpl", &rpl).ints("set", &set));
    }
    for base in (0..8192u32).step_by(256) {
        for r in 0..4u64 {
            let v: Vec<i64> = (0..256).map(|d| SegmentSelector::new((base + d) as u16, pl(r)).0 as i64).collect();
            out.emit(Ev::new("sel_new_block").n("base", base as i64).n("rpl", r as i64).ints("vals", &v));
        }
    }
    for base in (0..65536u32).step_by(256) {
        let v: Vec<i64> = (0..256).map(|d| catch(|| PrivilegeLevel::from_u16((base + d) as u16) as i64).unwrap_or(-1)).collect();
        out.emit(Ev::new("pl_block").n("base", base as i64).ints("vals", &v));
    }
    // u8 domains
    let ev: Vec<i64> = (0..=255u8).map(|x| ExceptionVector::try_from(x).map(|v| v as u8 as i64).unwrap_or(-1)).collect();
    let pat: Vec<i64> = (0..=255u8).map(|x| PatMemoryType::from_bits(x).map(|v| v.bits() as i64).unwrap_or(-1)).collect();
    let drn: Vec<i64> = (0..=255u8).map(|x| DebugAddressRegisterNumber::new(x).map(|v| v.get() as i64).unwrap_or(-1)).collect();
    let bsn: Vec<i64> = (0..=255usize).map(|x| BreakpointSize::new(x).map(|v| v as u8 as i64).unwrap_or(-1)).collect();
    let bsb: Vec<i64> = (0..=255u64).map(|x| BreakpointSize::from_bits(x).map(|v| v as u8 as i64).unwrap_or(-1)).collect();
    let bcb: Vec<i64> = (0..=255u64).map(|x| BreakpointCondition::from_bits(x).map(|v| v as u8 as i64).unwrap_or(-1)).collect();
    out.emit(Ev::new("u8_codecs").ints("excvec", &ev).ints("pat", &pat).ints("drn", &drn).ints("bpsize_new", &bsn).ints("bpsize_bits", &bsb).ints("bpcond_bits", &bcb));
    // DR7: 4 registers x 4 conditions x 4 sizes x flag subsets
    let mut r = Rng::new(seed);
    let d7 = Dr7Flags::all().bits();
    let conds = [BreakpointCondition::InstructionExecution, BreakpointCondition::DataWrites, BreakpointCondition::IoReadsWrites, BreakpointCondition::DataReadsWrites];
    let sizes = [BreakpointSize::Length1B, BreakpointSize::Length2B, BreakpointSize::Length8B, BreakpointSize::Length4B];
    for n in 0..4u8 {
        for (ci, cd) in conds.iter().enumerate() {
            for (si, sz) in sizes.iter().enumerate() {
                for k in 0..6 {
                    let fl = match k {
                        0 => 0,
                        1 => d7,
                        _ => r.next() & d7,
                    };
                    let other = r.next() & 0xffff_0000; // other registers' fields
                    let mut v = Dr7Value::from_bits_truncate(other | (r.next() & d7));
                    let nn = DebugAddressRegisterNumber::new(n).unwrap_or(DebugAddressRegisterNumber::Dr0);
                    let before = v.bits();
                    v.set_condition(nn, *cd);
                    v.set_size(nn, *sz);
                    let mid = v.bits();
                    v.remove_flags(Dr7Flags::all());
                    v.insert_flags(Dr7Flags::from_bits_retain(fl));
                    let got_c = catch(|| v.condition(nn) as u8 as i64).unwrap_or(-1);
                    let got_s = catch(|| v.size(nn) as u8 as i64).unwrap_or(-1);
                    out.emit(
                        Ev::new("dr7_codec")
                            .n("n", n as i64)
                            .n("cond", ci as i64)
                            .n("size", [0i64, 1, 2, 3][si])
                            .w("flags", fl)
                            .w("before", before)
                            .w("mid", mid)
                            .w("bits", v.bits())
                            .n("got_cond", got_c)
                            .n("got_size", got_s)
                            .w("got_flags", v.flags().bits())
                            .w("from_flags", Dr7Value::from(Dr7Flags::from_bits_retain(fl)).bits()),
                    );
                }
            }
        }
    }
    for x in [0u64, 1, 0xffff_ffff, 0x1_0000_0000, u64::MAX, d7, 0xffff_0000, !0xffff_0000 & !d7, r.next(), r.next()] {
        out.emit(Ev::new("dr7_from_bits").w("x", x).w("trunc", Dr7Value::from_bits_truncate(x).bits()).n("some", Dr7Value::from_bits(x).is_some() as i64).w("mask", Dr7Value::from_bits_truncate(u64::MAX).bits()));
    }
    // flag operations on a DR7 value touch the named flag bits only
    for _ in 0..60 {
        let v0 = Dr7Value::from_bits_truncate(r.next());
        let f = r.next() & d7;
        let fl = Dr7Flags::from_bits_retain(f);
        let (mut a, mut b, mut c, mut d, mut e2) = (v0, v0, v0, v0, v0);
        a.toggle_flags(fl);
        b.set_flags(fl, true);
        c.set_flags(fl, false);
        d.insert_flags(fl);
        e2.remove_flags(fl);
        let x = r.next();
        out.emit(
            Ev::new("dr7_flagops")
                .w("v", v0.bits())
                .w("f", f)
                .words("got", &[a.bits(), b.bits(), c.bits(), d.bits(), e2.bits()])
                .w("x", x)
                .w("unchecked", unsafe { Dr7Value::from_bits_unchecked(x) }.bits()),
        );
    }
    // selector error codes: all u16 in blocks + wide values
    for base in (0..65536u32).step_by(256) {
        let ext: Vec<i64> = (0..256).map(|d| SelectorErrorCode::new_truncate((base + d) as u64).external() as i64).collect();
        let tab: Vec<i64> = (0..256)
            .map(|d| match SelectorErrorCode::new_truncate((base + d) as u64).descriptor_table() {
                DescriptorTable::Gdt => 0,
                DescriptorTable::Idt => 1,
                DescriptorTable::Ldt => 2,
            })
            .collect();
        let idx: Vec<i64> = (0..256).map(|d| SelectorErrorCode::new_truncate((base + d) as u64).index() as i64).collect();
        let nul: Vec<i64> = (0..256).map(|d| SelectorErrorCode::new_truncate((base + d) as u64).is_null() as i64).collect();
        let some: Vec<i64> = (0..256).map(|d| SelectorErrorCode::new((base + d) as u64).is_some() as i64).collect();
        out.emit(Ev::new("selerr_block").n("base", base as i64).ints("ext", &ext).ints("tab", &tab).ints("idx", &idx).ints("nul", &nul).ints("some", &some));
    }
    for x in lattice64() {
        let t = SelectorErrorCode::new_truncate(x);
        out.emit(Ev::new("selerr_wide").w("x", x).n("some", SelectorErrorCode::new(x).is_some() as i64).n("idx", t.index() as i64).n("ext", t.external() as i64));
    }
}

fn pl(n: u64) -> PrivilegeLevel {
    match n {
        0 => PrivilegeLevel::Ring0,
        1 => PrivilegeLevel::Ring1,
        2 => PrivilegeLevel::Ring2,
        _ => PrivilegeLevel::Ring3,
    }
}
