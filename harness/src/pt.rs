//! Driver for the page-table mappers (C01, C02, C09, C10, C11 tokens, C20 dynamic part).
//!
//! Every call of the real mapper is recorded with its arguments, the allocator conversation,
//! the result, and the raw effect on simulated physical memory (8-byte slots that changed,
//! complete contents of newly allocated table frames, frames touched / deallocated).
//! `Trace_PT.tla` replays the same call on the specification and compares.

use crate::gen::*;
use crate::out::*;
use crate::physmem::*;
use std::cell::RefCell;
use x86_64::structures::paging::mapper::{
    CleanUp, FlagUpdateError, MapToError, PageTableFrameMapping, MappedFrame, Mapper, MapperFlush, TranslateError,
    TranslateResult, UnmapError,
};
use x86_64::structures::paging::{
    FrameAllocator, FrameDeallocator, MappedPageTable, OffsetPageTable, Page, PageSize, PageTable,
    PageTableFlags, PhysFrame, Size1GiB, Size2MiB, Size4KiB, Translate,
};
use x86_64::{PhysAddr, VirtAddr};

pub const NSLOTS: usize = 160;

#[derive(Clone, Debug)]
pub enum Op {
    /// how: 0 = map_to_with_table_flags, 1 = map_to, 2 = identity_map
    Map { s: u8, page: u64, frame: u64, f: u64, pf: u64, how: u8, answers: Vec<Option<u64>> },
    Unmap { s: u8, page: u64 },
    Update { s: u8, page: u64, f: u64 },
    SetFlags { s: u8, page: u64, k: u8, f: u64 },
    TranslatePage { s: u8, page: u64 },
    Translate { va: u64 },
    Clean { full: bool, a: u64, b: u64 },
}

pub struct Shared {
    pub pm: PhysMem,
    pub root: u64,
    pub rix: i64,
    /// base of the offset window (offset kind), 0 otherwise
    pub offset: u64,
    /// frames the mapper asked a pointer for (MappedPageTable) since the last clear
    pub touched: Vec<u64>,
    /// scratch page handed out for frames without backing store
    pub scratch: Vec<u64>,
    pub flushctr: u64,
}

thread_local! {
    /// flush (instead of ignore) the token the next successful call returns
    pub static FLUSH_NEXT: std::cell::Cell<bool> = std::cell::Cell::new(false);
    pub static SHARED: RefCell<Option<Shared>> = RefCell::new(None);
}

fn with<T>(f: impl FnOnce(&mut Shared) -> T) -> T {
    SHARED.with(|s| f(s.borrow_mut().as_mut().expect("shared")))
}

/// frame-to-pointer mapping of the `mapped` kind: arbitrary (slot permutation), logs every request
pub struct FrameMap;
unsafe impl PageTableFrameMapping for FrameMap {
    fn frame_to_pointer(&self, frame: PhysFrame) -> *mut PageTable {
        let pa = frame.start_address().as_u64();
        with(|sh| {
            sh.touched.push(pa);
            match sh.pm.frame_ptr(pa) {
                Some(p) => p as *mut PageTable,
                None => sh.scratch.as_mut_ptr() as *mut PageTable,
            }
        })
    }
}

pub struct Alloc {
    pub answers: Vec<Option<u64>>,
    pub pos: usize,
    pub log: Vec<Option<u64>>,
}
unsafe impl FrameAllocator<Size4KiB> for Alloc {
    fn allocate_frame(&mut self) -> Option<PhysFrame<Size4KiB>> {
        let a = self.answers.get(self.pos).copied().flatten();
        self.pos += 1;
        self.log.push(a);
        a.map(|f| PhysFrame::containing_address(PhysAddr::new(f)))
    }
}

pub struct Dealloc {
    pub log: Vec<(u64, bool)>,
}
impl FrameDeallocator<Size4KiB> for Dealloc {
    unsafe fn deallocate_frame(&mut self, frame: PhysFrame<Size4KiB>) {
        let pa = frame.start_address().as_u64();
        let linked = with(|sh| is_linked(&sh.pm, sh.root, sh.rix, pa));
        self.log.push((pa, linked));
    }
}

/// the harness's own walk of the raw tables: is `frame` still referenced as a table?
pub fn table_frames(pm: &PhysMem, root: u64, rix: i64) -> Vec<u64> {
    let mut out = vec![root];
    let mut level = vec![root];
    for lvl in (2..=4).rev() {
        let mut next = Vec::new();
        for &t in &level {
            if pm.frame_ptr(t).is_none() {
                continue;
            }
            for i in 0..512usize {
                if lvl == 4 && i as i64 == rix {
                    continue;
                }
                let e = pm.read(t, i);
                if e & 1 == 1 && e & 0x80 == 0 {
                    let f = e & 0x000f_ffff_ffff_f000;
                    next.push(f);
                    out.push(f);
                }
            }
        }
        level = next;
    }
    out
}
fn is_linked(pm: &PhysMem, root: u64, rix: i64, frame: u64) -> bool {
    table_frames(pm, root, rix).iter().skip(1).any(|&f| f == frame)
}

pub trait AllMapper:
    Mapper<Size4KiB> + Mapper<Size2MiB> + Mapper<Size1GiB> + Translate + CleanUp
{
}
impl<T> AllMapper for T where
    T: Mapper<Size4KiB> + Mapper<Size2MiB> + Mapper<Size1GiB> + Translate + CleanUp
{
}

fn flags(bits: u64) -> PageTableFlags {
    PageTableFlags::from_bits_retain(bits)
}
fn vpage<S: PageSize>(a: u64) -> Page<S> {
    unsafe { Page::from_start_address_unchecked(VirtAddr::new_unsafe(canon(a))) }
}
fn pframe<S: PageSize>(a: u64) -> PhysFrame<S> {
    unsafe { PhysFrame::from_start_address_unchecked(PhysAddr::new_unsafe(a & 0x000f_ffff_ffff_ffff)) }
}

struct CallRes {
    k: &'static str,
    page: u64,
    frame: u64,
}
impl CallRes {
    fn json(&self) -> String {
        format!(
            "{{\"k\":\"{}\",\"page\":{},\"frame\":{}}}",
            self.k,
            limbs(self.page),
            limbs(self.frame)
        )
    }
}
fn panic_res() -> CallRes {
    CallRes { k: "panic", page: 0, frame: 0 }
}

fn map_res<S: PageSize>(r: Result<MapperFlush<S>, MapToError<S>>) -> CallRes {
    match r {
        Ok(fl) => {
            let p = fl.page().start_address().as_u64();
            if FLUSH_NEXT.with(|f| f.get()) { fl.flush() } else { fl.ignore() }
            CallRes { k: "Ok", page: p, frame: 0 }
        }
        Err(MapToError::FrameAllocationFailed) => CallRes { k: "FrameAllocationFailed", page: 0, frame: 0 },
        Err(MapToError::ParentEntryHugePage) => CallRes { k: "ParentEntryHugePage", page: 0, frame: 0 },
        Err(MapToError::PageAlreadyMapped(f)) => CallRes { k: "PageAlreadyMapped", page: 0, frame: f.start_address().as_u64() },
    }
}
fn unmap_res<S: PageSize>(r: Result<(PhysFrame<S>, MapperFlush<S>), UnmapError>) -> CallRes {
    match r {
        Ok((f, fl)) => {
            let p = fl.page().start_address().as_u64();
            if FLUSH_NEXT.with(|f| f.get()) { fl.flush() } else { fl.ignore() }
            CallRes { k: "Ok", page: p, frame: f.start_address().as_u64() }
        }
        Err(UnmapError::ParentEntryHugePage) => CallRes { k: "ParentEntryHugePage", page: 0, frame: 0 },
        Err(UnmapError::PageNotMapped) => CallRes { k: "PageNotMapped", page: 0, frame: 0 },
        Err(UnmapError::InvalidFrameAddress(a)) => CallRes { k: "InvalidFrameAddress", page: 0, frame: a.as_u64() },
    }
}
fn upd_res<S: PageSize>(r: Result<MapperFlush<S>, FlagUpdateError>) -> CallRes {
    match r {
        Ok(fl) => {
            let p = fl.page().start_address().as_u64();
            if FLUSH_NEXT.with(|f| f.get()) { fl.flush() } else { fl.ignore() }
            CallRes { k: "Ok", page: p, frame: 0 }
        }
        Err(FlagUpdateError::PageNotMapped) => CallRes { k: "PageNotMapped", page: 0, frame: 0 },
        Err(FlagUpdateError::ParentEntryHugePage) => CallRes { k: "ParentEntryHugePage", page: 0, frame: 0 },
    }
}
fn setf_res(r: Result<x86_64::structures::paging::mapper::MapperFlushAll, FlagUpdateError>) -> CallRes {
    match r {
        Ok(fl) => {
            if FLUSH_NEXT.with(|f| f.get()) { fl.flush_all() } else { fl.ignore() }
            CallRes { k: "Ok", page: 0, frame: 0 }
        }
        Err(FlagUpdateError::PageNotMapped) => CallRes { k: "PageNotMapped", page: 0, frame: 0 },
        Err(FlagUpdateError::ParentEntryHugePage) => CallRes { k: "ParentEntryHugePage", page: 0, frame: 0 },
    }
}
fn tp_res<S: PageSize>(r: Result<PhysFrame<S>, TranslateError>) -> CallRes {
    match r {
        Ok(f) => CallRes { k: "Ok", page: 0, frame: f.start_address().as_u64() },
        Err(TranslateError::PageNotMapped) => CallRes { k: "PageNotMapped", page: 0, frame: 0 },
        Err(TranslateError::ParentEntryHugePage) => CallRes { k: "ParentEntryHugePage", page: 0, frame: 0 },
        Err(TranslateError::InvalidFrameAddress(a)) => CallRes { k: "InvalidFrameAddress", page: 0, frame: a.as_u64() },
    }
}

fn do_map<M: AllMapper, S: PageSize>(m: &mut M, page: u64, frame: u64, f: u64, pf: u64, how: u8, al: &mut Alloc) -> CallRes
where
    M: Mapper<S>,
{
    let (p, fr): (Page<S>, PhysFrame<S>) = (vpage(page), pframe(frame));
    let r = catch(|| unsafe {
        match how {
            0 => Mapper::<S>::map_to_with_table_flags(m, p, fr, flags(f), flags(pf), al),
            1 => Mapper::<S>::map_to(m, p, fr, flags(f), al),
            _ => Mapper::<S>::identity_map(m, fr, flags(f), al),
        }
    });
    match r {
        Some(r) => map_res(r),
        None => panic_res(),
    }
}

fn translate_json<M: AllMapper>(m: &M, va: u64) -> String {
    let v = unsafe { VirtAddr::new_unsafe(canon(va)) };
    let t = match catch(|| m.translate(v)) {
        Some(TranslateResult::Mapped { frame, offset, flags }) => {
            let (fa, s) = match frame {
                MappedFrame::Size4KiB(f) => (f.start_address().as_u64(), 0),
                MappedFrame::Size2MiB(f) => (f.start_address().as_u64(), 1),
                MappedFrame::Size1GiB(f) => (f.start_address().as_u64(), 2),
            };
            format!(
                "{{\"k\":\"mapped\",\"frame\":{},\"size\":{},\"off\":{},\"flags\":{},\"fsz\":{}}}",
                limbs(fa),
                s,
                limbs(offset),
                limbs(flags.bits()),
                limbs(frame.size())
            )
        }
        Some(TranslateResult::NotMapped) => "{\"k\":\"notmapped\",\"frame\":[0,0,0,0],\"size\":0,\"off\":[0,0,0,0],\"flags\":[0,0,0,0],\"fsz\":[0,0,0,0]}".to_string(),
        Some(TranslateResult::InvalidFrameAddress(a)) => format!(
            "{{\"k\":\"invalid\",\"frame\":{},\"size\":0,\"off\":[0,0,0,0],\"flags\":[0,0,0,0],\"fsz\":[0,0,0,0]}}",
            limbs(a.as_u64())
        ),
        None => "{\"k\":\"panic\",\"frame\":[0,0,0,0],\"size\":0,\"off\":[0,0,0,0],\"flags\":[0,0,0,0],\"fsz\":[0,0,0,0]}".to_string(),
    };
    let ta = match catch(|| m.translate_addr(v)) {
        Some(Some(p)) => Res::Ok(p.as_u64()),
        Some(None) => Res::None,
        None => Res::Panic,
    };
    let tp = match catch(|| Mapper::<Size4KiB>::translate_page(m, Page::containing_address(v))) {
        Some(r) => tp_res(r),
        None => panic_res(),
    };
    format!("\"t\":{},\"ta\":{},\"tp\":{}", t, ta.json(), tp.json())
}

fn opt_words(v: &[Option<u64>]) -> String {
    let mut s = String::from("[");
    for (i, a) in v.iter().enumerate() {
        if i > 0 {
            s.push(',');
        }
        match a {
            Some(f) => s.push_str(&limbs(*f)),
            None => s.push_str("[]"),
        }
    }
    s.push(']');
    s
}

pub struct World {
    pub free: Vec<u64>,
    pub kind: String,
    /// cumulative thresholds (out of 100) for map, unmap, update, setflags, translate_page, translate; rest = clean
    pub mix: [u64; 6],
    /// probability (in tenths) that the allocator fails somewhere during a map call
    pub fail10: u64,
    pub rix: i64,
}

/// execute one operation on the real mapper and record it
pub fn exec<M: AllMapper>(m: &mut M, w: &mut World, op: &Op, out: &mut Out) -> &'static str {
    with(|sh| {
        sh.pm.take_snapshot();
        sh.touched.clear();
    });
    let mut al = Alloc { answers: Vec::new(), pos: 0, log: Vec::new() };
    let mut de = Dealloc { log: Vec::new() };
    let mut e;
    let mut kind: &'static str = "";
    crate::trap::MODE.fetch_or(crate::trap::STRAY, std::sync::atomic::Ordering::SeqCst);
    // a third of the calls flush the token they get (trapped invlpg / mov cr3)
    let do_flush = with(|sh| { sh.flushctr = sh.flushctr.wrapping_mul(6364136223846793005).wrapping_add(1442695040888963407); (sh.flushctr >> 33) % 3 == 0 });
    FLUSH_NEXT.with(|f| f.set(do_flush));
    let _ = crate::cpu::drain();
    match op {
        Op::Map { s, page, frame, f, pf, how, answers } => {
            al.answers = answers.clone();
            let res = match s {
                0 => do_map::<M, Size4KiB>(m, *page, *frame, *f, *pf, *how, &mut al),
                1 => do_map::<M, Size2MiB>(m, *page, *frame, *f, *pf, *how, &mut al),
                _ => do_map::<M, Size1GiB>(m, *page, *frame, *f, *pf, *how, &mut al),
            };
            e = Ev::new("map")
                .n("s", *s as i64)
                .w("page", *page)
                .w("frame", *frame)
                .w("F", *f)
                .w("PF", *pf)
                .n("how", *how as i64)
                .raw("res", &res.json());
            kind = res.k;
        }
        Op::Unmap { s, page } => {
            let res = match s {
                0 => catch(|| Mapper::<Size4KiB>::unmap(m, vpage(*page))).map(unmap_res),
                1 => catch(|| Mapper::<Size2MiB>::unmap(m, vpage(*page))).map(unmap_res),
                _ => catch(|| Mapper::<Size1GiB>::unmap(m, vpage(*page))).map(unmap_res),
            }
            .unwrap_or_else(panic_res);
            e = Ev::new("unmap").n("s", *s as i64).w("page", *page).raw("res", &res.json());
            kind = res.k;
        }
        Op::Update { s, page, f } => {
            let res = unsafe {
                match s {
                    0 => catch(|| Mapper::<Size4KiB>::update_flags(m, vpage(*page), flags(*f))).map(upd_res),
                    1 => catch(|| Mapper::<Size2MiB>::update_flags(m, vpage(*page), flags(*f))).map(upd_res),
                    _ => catch(|| Mapper::<Size1GiB>::update_flags(m, vpage(*page), flags(*f))).map(upd_res),
                }
            }
            .unwrap_or_else(panic_res);
            e = Ev::new("update").n("s", *s as i64).w("page", *page).w("F", *f).raw("res", &res.json());
        }
        Op::SetFlags { s, page, k, f } => {
            macro_rules! sf {
                ($S:ty) => {
                    unsafe {
                        match k {
                            4 => catch(|| Mapper::<$S>::set_flags_p4_entry(m, vpage(*page), flags(*f))),
                            3 => catch(|| Mapper::<$S>::set_flags_p3_entry(m, vpage(*page), flags(*f))),
                            _ => catch(|| Mapper::<$S>::set_flags_p2_entry(m, vpage(*page), flags(*f))),
                        }
                    }
                };
            }
            let res = match s {
                0 => sf!(Size4KiB),
                1 => sf!(Size2MiB),
                _ => sf!(Size1GiB),
            }
            .map(setf_res)
            .unwrap_or_else(panic_res);
            e = Ev::new("setflags")
                .n("s", *s as i64)
                .w("page", *page)
                .n("K", *k as i64)
                .w("F", *f)
                .raw("res", &res.json());
        }
        Op::TranslatePage { s, page } => {
            let res = match s {
                0 => catch(|| Mapper::<Size4KiB>::translate_page(m, vpage(*page))).map(tp_res),
                1 => catch(|| Mapper::<Size2MiB>::translate_page(m, vpage(*page))).map(tp_res),
                _ => catch(|| Mapper::<Size1GiB>::translate_page(m, vpage(*page))).map(tp_res),
            }
            .unwrap_or_else(panic_res);
            e = Ev::new("translate_page").n("s", *s as i64).w("page", *page).raw("res", &res.json());
        }
        Op::Translate { va } => {
            let j = translate_json(m, *va);
            e = Ev::new("translate").w("va", canon(*va));
            e = e.raw("x", &format!("{{{}}}", j));
        }
        Op::Clean { full, a, b } => {
            let ok = if *full {
                catch(|| unsafe { m.clean_up(&mut de) }).is_some()
            } else {
                let rg = Page::range_inclusive(vpage::<Size4KiB>(*a), vpage::<Size4KiB>(*b));
                catch(|| unsafe { m.clean_up_addr_range(rg, &mut de) }).is_some()
            };
            let (ra, rb) = if *full { (0u64, 0xffff_ffff_ffff_f000u64) } else { (canon(*a), canon(*b)) };
            e = Ev::new("clean")
                .n("full", *full as i64)
                .w("a", ra)
                .w("b", rb)
                .str("k", if ok { "Ok" } else { "panic" });
        }
    }
    // raw effects
    crate::trap::MODE.fetch_and(!crate::trap::STRAY, std::sync::atomic::Ordering::SeqCst);
    let faults = crate::trap::take_strays();
    let fills = crate::trap::take_mmu();
    FLUSH_NEXT.with(|f| f.set(false));
    // instructions executed by a token flush (invlpg; mov from/to cr3)
    let fl_ins: Vec<crate::cpu::Instr> = crate::cpu::drain().into_iter().filter(|i| i.m == crate::cpu::M_INVLPG || i.m == crate::cpu::M_MOV_TO_CR || i.m == crate::cpu::M_MOV_FROM_CR).collect();
    let allocated: Vec<u64> = al.log.iter().filter_map(|x| *x).collect();
    let (diff, touched, strays) = with(|sh| {
        let d = sh.pm.diff();
        let t = sh.touched.clone();
        let mut strays: Vec<u64> = t.iter().copied().filter(|f| sh.pm.frame_ptr(*f).is_none()).collect();
        // memory faults: pointers into "physical memory" that is not a frame of the arena
        for (a, _rip) in &faults {
            strays.push(a.wrapping_sub(sh.offset) & !0xfff);
        }
        let mut t = t;
        for (_pg, fr, kind) in &fills {
            if *kind == 0 {
                t.push(*fr);
            } else {
                strays.push(*fr);
            }
        }
        (d, t, strays)
    });
    let mut mj = String::from("[");
    for (k, (pg, fr, kind)) in fills.iter().enumerate() {
        if k > 0 {
            mj.push(',');
        }
        mj.push_str(&format!("[{},{},{}]", limbs(*pg), limbs(*fr), kind));
    }
    mj.push(']');
    let mut dj = String::from("[");
    let mut first = true;
    for (pa, i, _o, n) in &diff {
        if allocated.contains(pa) {
            continue;
        }
        if !first {
            dj.push(',');
        }
        first = false;
        dj.push_str(&format!("[{},{},{}]", limbs(*pa), i, limbs(*n)));
    }
    dj.push(']');
    let mut nj = String::from("[");
    for (k, pa) in allocated.iter().enumerate() {
        if k > 0 {
            nj.push(',');
        }
        let nz = with(|sh| sh.pm.nonzero(*pa));
        nj.push_str(&format!("[{},[", limbs(*pa)));
        for (q, (i, v)) in nz.iter().enumerate() {
            if q > 0 {
                nj.push(',');
            }
            nj.push_str(&format!("[{},{}]", i, limbs(*v)));
        }
        nj.push_str("]]");
    }
    nj.push(']');
    let mut tv = touched.clone();
    tv.sort_unstable();
    tv.dedup();
    let mut dl = String::from("[");
    for (k, (pa, linked)) in de.log.iter().enumerate() {
        if k > 0 {
            dl.push(',');
        }
        dl.push_str(&format!("[{},{}]", limbs(*pa), *linked as i64));
    }
    dl.push(']');
    e = e
        .raw("allocs", &opt_words(&al.log))
        .raw("diff", &dj)
        .raw("newtabs", &nj)
        .words("touched", &tv)
        .words("stray", &strays)
        .raw("dealloc", &dl)
        .raw("mmu", &mj)
        .n("flushed", do_flush as i64)
        .w("cr3", crate::cpu::CR[3].load(std::sync::atomic::Ordering::SeqCst))
        .raw("fl", &crate::cpu::instrs_json(&fl_ins));
    out.emit(e);
    // bookkeeping of the pool: allocated frames leave it, freed frames come back (re-junked)
    w.free.retain(|f| !allocated.contains(f));
    let _ = &mut kind;
    for (pa, _) in &de.log {
        with(|sh| {
            if sh.pm.frame_ptr(*pa).is_some() {
                sh.pm.fill(*pa, |i| junk(*pa, i));
            }
        });
        // only frames of the arena can be handed out again
        if !w.free.contains(pa) && with(|sh| sh.pm.frame_ptr(*pa).is_some()) {
            w.free.push(*pa);
        }
    }
    kind
}

// ------------------------------------------------------------------------------------------
// behaviours

const FLAG_POOL: [u64; 20] = [1, 2, 3, 4, 5, 6, 8, 9, 10, 11, 52, 53, 54, 55, 58, 59, 60, 61, 62, 63];

fn leaf_flags(r: &mut Rng) -> u64 {
    match r.below(8) {
        0 => 1,
        1 => 1 | 2,
        2 => 1 | 2 | 4,
        3 => 1 | 4 | (1 << 63),
        4 => 1 | 2 | (1 << 8) | (1 << 9),
        5 => 1 | 8 | 16 | 32 | 64,
        _ => {
            let mut f = 1u64;
            for _ in 0..r.below(6) {
                f |= 1u64 << *r.pick(&FLAG_POOL);
            }
            f
        }
    }
}
fn parent_flags(r: &mut Rng) -> u64 {
    match r.below(7) {
        0 => 1,
        1 => 1 | 2,
        2 => 1 | 2 | 4,
        3 => 1 | 4,
        4 => 1 | 2 | (1 << 63),
        5 => 1 | (1 << 9) | (1 << 52),
        _ => 1 | 2 | 4 | 8 | 16,
    }
}

pub struct Universe {
    pub i4: Vec<u64>,
    pub i3: Vec<u64>,
    pub i2: Vec<u64>,
    pub i1: Vec<u64>,
    pub data: [Vec<u64>; 3],
}

fn pick_page(r: &mut Rng, u: &Universe, s: u8) -> u64 {
    let (a, b, c, d) = (*r.pick(&u.i4), *r.pick(&u.i3), *r.pick(&u.i2), *r.pick(&u.i1));
    let mut x = (a << 39) | (b << 30);
    if s <= 1 {
        x |= c << 21;
    }
    if s == 0 {
        x |= d << 12;
    }
    canon(x)
}

pub fn universe(r: &mut Rng, rix: i64, table_frames: &[u64], min_frame: u64) -> Universe {
    let cand4: [u64; 8] = [0, 1, 255, 256, 511, 2, 300, 128];
    let mut i4 = Vec::new();
    while i4.len() < 2 {
        let x = if r.chance(3, 4) { *r.pick(&cand4) } else { r.below(512) };
        if x as i64 != rix && !i4.contains(&x) {
            i4.push(x);
        }
    }
    let pick_n = |r: &mut Rng, n: usize| {
        let mut v: Vec<u64> = Vec::new();
        while v.len() < n {
            let x = match r.below(4) {
                0 => 0,
                1 => 511,
                2 => r.below(4),
                _ => r.below(512),
            };
            if !v.contains(&x) {
                v.push(x);
            }
        }
        v
    };
    let mut i3 = pick_n(r, 2);
    let mut i2 = pick_n(r, 3);
    let mut i1 = pick_n(r, 3);
    if rix >= 0 {
        // lower-level indices equal to the recursive index are ordinary slots: make sure some
        // behaviours use them (only the level-4 slot of that index is special)
        let rx = rix as u64;
        if r.chance(1, 2) && !i3.contains(&rx) {
            i3[0] = rx;
        }
        if r.chance(1, 2) && !i2.contains(&rx) {
            i2[0] = rx;
        }
        if r.chance(1, 3) && !i1.contains(&rx) {
            i1[0] = rx;
        }
    }
    let mut data: [Vec<u64>; 3] = [Vec::new(), Vec::new(), Vec::new()];
    for s in 0..3usize {
        let size = 1u64 << (12 + 9 * s);
        let lim = (1u64 << 52) - size;
        let mut cands = vec![0u64, lim, size, 7 * size, (1u64 << 40) & !(size - 1), (0x1234_5678_9000u64) & !(size - 1), (1u64 << 51)];
        cands.push(r.below(1 << 40) & !(size - 1));
        cands.push(r.below(1 << 52) & !(size - 1));
        while data[s].len() < 3 {
            let f = *r.pick(&cands);
            if !data[s].contains(&f) && !table_frames.contains(&f) && f >= min_frame {
                data[s].push(f);
            }
        }
    }
    Universe { i4, i3, i2, i1, data }
}

pub fn random_op(r: &mut Rng, u: &Universe, w: &World, last: &Option<Op>, live: &[(u8, u64)]) -> Op {
    // an immediately repeated clean-up (C10: the second call frees nothing)
    if let Some(Op::Clean { full, a, b }) = last {
        if r.chance(1, 2) {
            return Op::Clean { full: *full, a: *a, b: *b };
        }
    }
    let mut s = *r.pick(&[0u8, 0, 0, 1, 1, 2]);
    let mut page = if r.chance(1, 30) { canon(r.next() & !((1u64 << (12 + 9 * s as u64)) - 1)) } else { pick_page(r, u, s) };
    let roll = r.below(100);
    // operations on existing mappings: half of the time aim at a page that is mapped right now
    // (with its own size, or with another size so that the nesting cases are hit too)
    if roll >= w.mix[0] && !live.is_empty() && r.chance(1, 2) {
        let (ls, lp) = *r.pick(live);
        if r.chance(3, 4) {
            s = ls;
            page = lp;
        } else {
            s = *r.pick(&[0u8, 1, 2]);
            page = lp & !((1u64 << (12 + 9 * s as u64)) - 1);
        }
    }
    let mx = w.mix;
    if w.rix >= 0 && ((page >> 39) & 0x1ff) as i64 == w.rix {
        page = pick_page(r, u, s);
    }
    match roll {
        x if x < mx[0] => {
            let how = *r.pick(&[0u8, 0, 0, 1, 1, 2]);
            let frame = *r.pick(&u.data[s as usize]);
            // huge leaves may carry the PAT bit (bit 12 of a huge-page entry)
            // ... and 4 KiB leaves their PAT bit (bit 7 of a level-1 entry, the bit that means HUGE_PAGE above)
            let f = leaf_flags(r) | if s > 0 && r.chance(1, 3) { 1 << 12 } else { 0 } | if s == 0 && r.chance(1, 4) { 1 << 7 } else { 0 };
            let pf = parent_flags(r);
            // allocator schedule: enough frames, or fail at request 1, 2 or 3
            let mut answers: Vec<Option<u64>> = Vec::new();
            let mut pool = w.free.clone();
            let fail_at = if r.below(10) < w.fail10 { Some(r.below(3) as usize) } else { None };
            // half of the time huge-page-aligned frames are handed out first (a table living in a
            // frame that would also be a valid huge data frame is the interesting case for
            // operations of the wrong size on that slot)
            let prefer_aligned = r.chance(1, 2);
            for k in 0..3 {
                if Some(k) == fail_at || pool.is_empty() {
                    answers.push(None);
                    break;
                }
                let aligned: Vec<usize> = (0..pool.len()).filter(|&i| pool[i] & 0x1f_ffff == 0).collect();
                let i = if prefer_aligned && !aligned.is_empty() { *r.pick(&aligned) } else { r.below(pool.len() as u64) as usize };
                answers.push(Some(pool.swap_remove(i)));
            }
            // identity mapping targets the page at the frame's address: not inside the recursive slot
            let how = if how == 2 && w.rix >= 0 && ((frame >> 39) & 0x1ff) as i64 == w.rix { 0 } else { how };
            let page = if how == 2 { canon(frame) } else { page };
            Op::Map { s, page, frame, f, pf, how, answers }
        }
        x if x < mx[1] => Op::Unmap { s, page },
        x if x < mx[2] => Op::Update { s, page, f: leaf_flags(r) | if s > 0 && r.chance(1, 3) { 1 << 12 } else { 0 } | if s == 0 && r.chance(1, 4) { 1 << 7 } else { 0 } },
        x if x < mx[3] => Op::SetFlags { s, page, k: 2 + r.below(3) as u8, f: parent_flags(r) },
        x if x < mx[4] => Op::TranslatePage { s, page },
        x if x < mx[5] => {
            if w.rix >= 0 && r.chance(1, 8) {
                // an address inside the recursive slot: it translates to page-table memory, as
                // the hardware walk through the recursive entry says
                let rx = w.rix as u64;
                let mut ix = [rx, 0, 0, 0];
                for k in 1..4 {
                    ix[k] = match r.below(4) {
                        0 => rx,
                        1 => *r.pick(&u.i4),
                        2 => *r.pick(&u.i3),
                        _ => *r.pick(&u.i1),
                    };
                }
                let va = canon((ix[0] << 39) | (ix[1] << 30) | (ix[2] << 21) | (ix[3] << 12) | r.below(4096));
                return Op::Translate { va };
            }
            Op::Translate { va: page.wrapping_add(r.below(1 << (12 + 9 * s as u64))) }
        }
        _ => {
            if r.chance(1, 3) {
                Op::Clean { full: true, a: 0, b: 0 }
            } else {
                let p0 = pick_page(r, u, 0);
                let (a, b) = match r.below(12) {
                    0 => (p0, p0),                                                   // single page
                    1 => (p0 & !0x1f_ffff, (p0 & !0x1f_ffff) | 0x1f_f000),           // one level-1 table
                    2 => (p0 & !0x3fff_ffff, (p0 & !0x3fff_ffff) | 0x3fff_f000),     // one level-2 table
                    3 => (canon(p0 & !0x7f_ffff_ffff), canon((p0 & !0x7f_ffff_ffff) | 0x7f_ffff_f000)), // level-3 table
                    4 => (0, 0xffff_ffff_ffff_f000),                                 // everything, as a range
                    5 => (0x0000_7fff_ffe0_0000, 0xffff_8000_001f_f000),             // spanning the gap
                    6 => (p0, pick_page(r, u, 0)),                                   // arbitrary, maybe reversed
                    7 => (p0, 0xffff_ffff_ffff_f000),                                // ending at the last page
                    8 => ((p0 & !0x1f_ffff) | 0x5000, (p0 & !0x1f_ffff) | 0x2000),    // reversed inside one level-1 table
                    9 => ((p0 & !0x3fff_ffff) | 0x60_0000, (p0 & !0x3fff_ffff) | 0x20_1000), // reversed, two level-1 tables
                    10 => (p0 | 0x1000, p0),                                         // reversed neighbours
                    _ => (canon((p0 & !0x7f_ffff_ffff) | 0x8000_0000), canon((p0 & !0x7f_ffff_ffff) | 0x4000_0000)), // reversed, two level-2 tables
                };
                Op::Clean { full: false, a, b }
            }
        }
    }
}

/// probe addresses around an operation's page
fn probes_for(op: &Op) -> Vec<u64> {
    let (s, page) = match op {
        Op::Map { s, page, .. } | Op::Unmap { s, page } | Op::Update { s, page, .. } | Op::SetFlags { s, page, .. } => (*s, *page),
        _ => return Vec::new(),
    };
    let size = 1u64 << (12 + 9 * s as u64);
    vec![
        page,
        page.wrapping_add(size / 2 + 0x123),
        page.wrapping_add(size - 1),
        canon(page.wrapping_sub(1)),
        canon(page.wrapping_add(size)),
    ]
}

pub struct Setup {
    pub kind: String,
    pub root: u64,
    pub rix: i64,
    pub pool: Vec<u64>,
    pub offset: u64,
}

/// choose frames for a behaviour and lay out simulated physical memory
pub fn setup(r: &mut Rng, kind: &str) -> Setup {
    let (offset, hi_ok) = match kind {
        "offset" => (*r.pick(&[0x1000_0000_0000u64, 0x2345_6000_0000, 0x4000_0000_0000, 0x0]), false),
        _ => (0, true),
    };
    let root_cands: Vec<u64> = if hi_ok {
        vec![0x1000, 0x10_0000, 0x7fff_f000, 0x2_0000_0000, 0x000f_ffff_ffff_f000, 0x0008_0000_0000_0000]
    } else {
        vec![0x1_0000, 0x10_0000, 0x7fff_f000, 0x2_0000_0000, 0xff_ffff_f000]
    };
    let root = *r.pick(&root_cands);
    let mut pool = Vec::new();
    let mut cands: Vec<u64> = vec![0x2000, 0x3000, 0x5000, 0x20_0000, 0x40_0000, 0x4000_0000, 0x8000_0000, 0x7fff_e000, 0x1_0000_1000, 0x60_0000, 0xc000_0000];
    if hi_ok {
        cands.extend_from_slice(&[0x000f_ffff_ffff_e000, 0x000f_ffff_ffe0_0000, 0x000f_ffff_c000_0000, 0x0007_ffff_ffff_f000]);
    }
    if offset == 0 {
        // identity window: physical addresses are ordinary user addresses; keep them out of the way
        cands = (0..16).map(|k| 0x7100_0000_0000u64 + k * 0x20_0000 + (k % 3) * 0x1000).collect();
    }
    let n = 8 + r.below(5) as usize;
    while pool.len() < n {
        let f = if r.chance(4, 5) { *r.pick(&cands) } else { (r.below(if hi_ok { 1 << 52 } else { 1 << 39 })) & !0xfff };
        if f != root && !pool.contains(&f) && (offset != 0 || f >= 0x7000_0000_0000) {
            pool.push(f);
        }
    }
    let root = if offset == 0 && kind == "offset" { 0x7100_0f00_0000 } else { root };
    let rix = if kind == "recursive" { pick_recursive_index(r) } else { -1 };
    Setup { kind: kind.to_string(), root, rix, pool, offset }
}

/// a recursive index whose 512 GiB region is completely unused in this process
fn pick_recursive_index(r: &mut Rng) -> i64 {
    let maps = std::fs::read_to_string("/proc/self/maps").unwrap_or_default();
    let mut used = [false; 256];
    for line in maps.lines() {
        if let Some((range, _)) = line.split_once(' ') {
            if let Some((a, b)) = range.split_once('-') {
                if let (Ok(a), Ok(b)) = (u64::from_str_radix(a, 16), u64::from_str_radix(b, 16)) {
                    let (lo, hi) = (a >> 39, (b.saturating_sub(1)) >> 39);
                    for s in lo..=hi.min(255) {
                        used[s as usize] = true;
                    }
                }
            }
        }
    }
    // keep clear of the offset windows other behaviours use and of slot 0 (null page)
    for s in [0usize, 32, 70, 128, 226, 227] {
        used[s] = true;
    }
    // The choice must not depend on ASLR (traces are reproducible from the seed): candidates
    // are taken from regions the kernel never uses for PIE binaries, mmap or the stack; the
    // (practically impossible) case of an occupied candidate moves on to the next one.
    let cands: [i64; 12] = [1, 2, 3, 5, 17, 42, 100, 127, 129, 150, 77, 90];
    let extra = r.below(150) as i64 + 1;
    let first = if r.chance(1, 3) && ![32i64, 70, 128].contains(&extra) { extra } else { *r.pick(&cands) };
    if !used[first as usize] {
        return first;
    }
    *cands.iter().find(|&&c| !used[c as usize]).expect("no free recursive slot")
}

pub fn rec_va(rix: i64) -> u64 {
    let r = rix as u64;
    (r << 39) | (r << 30) | (r << 21) | (r << 12)
}

pub fn install(st: &Setup) -> bool {
    let fresh = SHARED.with(|s| s.borrow().is_none());
    if fresh {
        SHARED.with(|s| {
            *s.borrow_mut() = Some(Shared {
                pm: PhysMem::new(NSLOTS),
                root: 0,
                rix: -1,
                offset: 0,
                touched: Vec::new(),
                scratch: vec![0u64; 1024],
                flushctr: 0x1234_5678,
            })
        });
    }
    with(|sh| {
        sh.pm.reset();
        sh.root = st.root;
        sh.rix = st.rix;
        sh.offset = st.offset;
        let mut ok = true;
        for &f in std::iter::once(&st.root).chain(st.pool.iter()) {
            if st.kind == "offset" {
                ok &= sh.pm.window(st.offset, f);
            } else {
                sh.pm.assign(f);
            }
        }
        if !ok {
            return false;
        }
        sh.pm.fill(st.root, |_| 0);
        for &f in &st.pool {
            sh.pm.fill(f, |i| junk(f, i));
        }
        // software MMU view of the arena
        use std::sync::atomic::Ordering::SeqCst;
        for (i, fr) in crate::trap::MMU_FRAME.iter().enumerate() {
            fr.store(if i < sh.pm.rev.len() { sh.pm.rev[i] } else { u64::MAX }, SeqCst);
        }
        crate::trap::MMU_FD.store(sh.pm.fd as u64, SeqCst);
        crate::trap::MMU_CR3.store(st.root, SeqCst);
        // the low 12 bits of CR3 (PCID or PWT/PCD) vary from behaviour to behaviour
        let low = [0u64, 0x18, 0xabc, 0x001, 0xfff, 0x7e7][((st.root >> 12) as usize + st.pool.len() + st.rix.unsigned_abs() as usize) % 6];
        crate::cpu::CR[3].store(st.root | low, SeqCst);
        if st.rix >= 0 {
            sh.pm.write(st.root, st.rix as usize, st.root | 3);
            crate::trap::MMU_RIX.store(st.rix as u64, SeqCst);
            crate::trap::MODE.fetch_or(crate::trap::MMU, SeqCst);
        } else {
            crate::trap::MMU_RIX.store(u64::MAX, SeqCst);
            crate::trap::MODE.fetch_and(!crate::trap::MMU, SeqCst);
        }
        // the scratch page looks like junk too
        for (i, x) in sh.scratch.iter_mut().enumerate() {
            *x = junk(0xdead_0000, i);
        }
        true
    })
}

fn reset_event(out: &mut Out, st: &Setup) {
    out.emit(
        Ev::new("reset")
            .str("kind", &st.kind)
            .w("root", st.root)
            .n("rix", st.rix)
            .w("offset", st.offset)
            .words("pool", &st.pool)
            .raw("mem", "[]"),
    );
}

fn run_behaviour<M: AllMapper>(m: &mut M, st: &Setup, r: &mut Rng, len: usize, out: &mut Out, mix: &str) {
    let (mixv, fail10) = mix_of(mix);
    let mut w = World { free: st.pool.clone(), kind: st.kind.clone(), mix: mixv, fail10, rix: st.rix };
    let mut tf = st.pool.clone();
    tf.push(st.root);
    // with the identity window (offset 0) physical address 0 cannot be backed by a junk page
    let u = universe(r, st.rix, &tf, if st.kind == "offset" && st.offset == 0 { 0x1_0000 } else { 0 });
    let mut last: Option<Op> = None;
    let mut recent: Vec<u64> = Vec::new();
    let mut live: Vec<(u8, u64)> = Vec::new();
    for _ in 0..len {
        let op = random_op(r, &u, &w, &last, &live);
        let kind = exec(m, &mut w, &op, out);
        match &op {
            Op::Map { s, page, .. } if kind == "Ok" => live.push((*s, *page)),
            Op::Unmap { s, page } if kind == "Ok" => live.retain(|x| *x != (*s, *page)),
            _ => {}
        }
        for p in probes_for(&op) {
            recent.push(p);
        }
        if recent.len() > 40 {
            let cut = recent.len() - 40;
            recent.drain(0..cut);
        }
        // probe a few addresses after every mutating call
        if !matches!(op, Op::Translate { .. } | Op::TranslatePage { .. }) {
            let all = probes_for(&op);
            let mut ps = Vec::new();
            if !all.is_empty() {
                ps.push(*r.pick(&all));
                ps.push(*r.pick(&all));
            }
            if !recent.is_empty() {
                ps.push(*r.pick(&recent));
            }
            if let Some((ls, lp)) = live.last() {
                if r.chance(1, 2) {
                    ps.push(lp.wrapping_add(r.below(1u64 << (12 + 9 * *ls as u64))));
                }
            }
            for va in ps {
                exec(m, &mut w, &Op::Translate { va }, out);
            }
        }
        last = Some(op);
    }
}

/// recursive index as printed by the mapper's Debug impl (the field is private)
pub fn debug_rix(dbg: &str) -> i64 {
    dbg.rsplit("PageTableIndex(")
        .next()
        .and_then(|t| t.split(')').next())
        .and_then(|n| n.trim().parse::<i64>().ok())
        .unwrap_or(-2)
}

pub fn mix_of(mix: &str) -> ([u64; 6], u64) {
    match mix {
        // many failing calls and allocator failures (C02)
        "errors" => ([45, 58, 70, 82, 90, 93], 5),
        // allocation heavy: maps that need fresh tables, recycled frames (C09)
        "alloc" => ([50, 65, 70, 75, 80, 83], 3),
        // clean-up heavy (C10)
        "clean" => ([30, 48, 52, 56, 60, 62], 2),
        _ => ([38, 53, 63, 73, 81, 87], 3),
    }
}

pub fn run_random(out: &mut Out, seed: u64, n: u64, kinds: &[&str], mix: &str) {
    let mut r = Rng::new(seed);
    let mut events = 0u64;
    let mut b = 0;
    while events < n {
        let kind = kinds[b % kinds.len()];
        b += 1;
        let st = setup(&mut r, kind);
        if !install(&st) {
            continue; // window address busy: try another layout
        }
        reset_event(out, &st);
        let len = 30 + r.below(90) as usize;
        let before = out.count;
        let rootp = with(|sh| sh.pm.frame_ptr(st.root).unwrap()) as *mut PageTable;
        match kind {
            "mapped" => {
                let mut m = unsafe { MappedPageTable::new(&mut *rootp, FrameMap) };
                let got = [m.level_4_table() as *const PageTable as u64, m.level_4_table_mut() as *mut PageTable as u64, 0];
                out.emit(Ev::new("accessors").str("kind", kind).words("want", &[rootp as u64, rootp as u64, 0]).words("got", &got));
                run_behaviour(&mut m, &st, &mut r, len, out, mix);
            }
            "offset" => {
                let wp = (st.offset + st.root) as *mut PageTable;
                let mut m = unsafe { OffsetPageTable::new(&mut *wp, VirtAddr::new(st.offset)) };
                let got = [m.level_4_table() as *const PageTable as u64, m.level_4_table_mut() as *mut PageTable as u64, m.phys_offset().as_u64()];
                out.emit(Ev::new("accessors").str("kind", kind).words("want", &[wp as u64, wp as u64, st.offset]).words("got", &got));
                run_behaviour(&mut m, &st, &mut r, len, out, mix);
            }
            "recursive" => {
                use x86_64::structures::paging::RecursivePageTable;
                let va = rec_va(st.rix);
                let made = catch(|| RecursivePageTable::new(unsafe { &mut *(va as *mut PageTable) }));
                let fills = crate::trap::take_mmu();
                let ins = crate::cpu::drain();
                let (k, got) = match &made {
                    Some(Ok(m)) => ("Ok", debug_rix(&format!("{:?}", m))),
                    Some(Err(x86_64::structures::paging::mapper::InvalidPageTable::NotRecursive)) => ("NotRecursive", -1),
                    Some(Err(x86_64::structures::paging::mapper::InvalidPageTable::NotActive)) => ("NotActive", -1),
                    None => ("panic", -1),
                };
                out.emit(
                    Ev::new("rpt_new")
                        .w("addr", va)
                        .w("cr3", st.root)
                        .w("slot", st.root | 3)
                        .str("k", k)
                        .n("got", got)
                        .n("fills", fills.len() as i64)
                        .raw("instrs", &crate::cpu::instrs_json(&ins)),
                );
                if let Some(Ok(mut m)) = made {
                    if r.chance(1, 3) {
                        // the unchecked constructor with a reference to the same level-4 table at
                        // another address (here: its place in the arena): the mapper must reach the
                        // lower tables through the recursive index it was given
                        drop(m);
                        let mut m2 = unsafe {
                            RecursivePageTable::new_unchecked(&mut *rootp, x86_64::structures::paging::PageTableIndex::new(st.rix as u16))
                        };
                        out.emit(Ev::new("accessors").str("kind", "recursive").words("want", &[rootp as u64, 0, 0]).words("got", &[m2.level_4_table() as *const PageTable as u64, 0, 0]));
                        run_behaviour(&mut m2, &st, &mut r, len, out, mix);
                    } else {
                        run_behaviour(&mut m, &st, &mut r, len, out, mix);
                    }
                }
            }
            _ => {}
        }
        events += out.count - before;
    }
}


// ------------------------------------------------------------------------------------------
// C20: RecursivePageTable::new on recursive and near-recursive table addresses

pub fn run_rpt_new(out: &mut Out, seed: u64, n: u64) {
    use std::sync::atomic::Ordering::SeqCst;
    use x86_64::structures::paging::mapper::InvalidPageTable;
    use x86_64::structures::paging::RecursivePageTable;
    let mut r = Rng::new(seed);
    crate::trap::MODE.fetch_and(!crate::trap::MMU, SeqCst);
    let mut done = 0u64;
    let frames: [u64; 5] = [0x1000, 0x7fff_f000, 0x000f_ffff_ffff_f000, 0x1234_5678_9000, 0];
    while done < n {
        let rix = pick_recursive_index(&mut r) as u64;
        // the four indices: all equal, or one position differing (by one, or arbitrary)
        let mut idx = [rix; 4];
        let variant = r.below(9);
        if (1..=4).contains(&variant) {
            let pos = (variant - 1) as usize;
            let alt = if r.chance(1, 2) { rix ^ 1 } else { r.below(256) };
            idx[pos] = if alt == 0 && pos == 0 { 1 } else { alt };
        } else if variant >= 6 {
            // any pattern over two values: (a,a,b,b), (a,b,b,a), (a,b,a,b), (a,a,a,b), ...
            let alt = if r.chance(1, 2) { rix ^ 1 } else { 1 + r.below(255) };
            let pat = 1 + r.below(15);
            for (pos, slot) in idx.iter_mut().enumerate() {
                if pat & (1 << pos) != 0 {
                    *slot = alt;
                }
            }
        }
        let va = (idx[0] << 39) | (idx[1] << 30) | (idx[2] << 21) | (idx[3] << 12);
        if idx[0] >= 256 || va < 0x10000 {
            continue;
        }
        let p = unsafe {
            libc::mmap(
                va as *mut libc::c_void,
                4096,
                libc::PROT_READ | libc::PROT_WRITE,
                libc::MAP_PRIVATE | libc::MAP_ANONYMOUS | libc::MAP_FIXED_NOREPLACE,
                -1,
                0,
            )
        };
        if p as u64 != va {
            if p != libc::MAP_FAILED {
                unsafe { libc::munmap(p, 4096) };
            }
            continue;
        }
        let frame = *r.pick(&frames);
        for _ in 0..12 {
            let cr3 = match r.below(5) {
                0 => frame,
                1 => frame | 0x18,
                2 => frame | 0xabc,
                3 => *r.pick(&frames),
                _ => frame | 0xfff,
            };
            let slot = match r.below(9) {
                0 => frame | 1,
                1 => frame | 3,
                2 => frame | 0x8000_0000_0000_0063,
                3 => frame, // right frame, not present
                4 => 1,     // present bit only
                5 => 0,
                6 => *r.pick(&frames) | 3,
                7 => frame | 0x83,
                _ => (frame ^ 0x1000) | 3,
            };
            let t = va as *mut u64;
            for i in 0..512 {
                unsafe { *t.add(i) = 0 };
            }
            // the slot the constructor must look at is the level-4 index of the address; put
            // decoys elsewhere
            unsafe {
                *t.add(idx[0] as usize) = slot;
                if idx[3] != idx[0] {
                    *t.add(idx[3] as usize) = frame | 3;
                }
            }
            crate::cpu::CR[3].store(cr3, SeqCst);
            let made = catch(|| RecursivePageTable::new(unsafe { &mut *(va as *mut PageTable) }));
            let ins = crate::cpu::drain();
            let (k, got) = match &made {
                Some(Ok(m)) => ("Ok", debug_rix(&format!("{:?}", m))),
                Some(Err(InvalidPageTable::NotRecursive)) => ("NotRecursive", -1),
                Some(Err(InvalidPageTable::NotActive)) => ("NotActive", -1),
                None => ("panic", -1),
            };
            out.emit(
                Ev::new("rpt_new")
                    .w("addr", va)
                    .w("cr3", cr3)
                    .w("slot", slot)
                    .str("k", k)
                    .n("got", got)
                    .n("fills", 0)
                    .raw("instrs", &crate::cpu::instrs_json(&ins)),
            );
            done += 1;
        }
        // two constructions around a change of the address-space root, inside one function: the
        // second must look at the root register again
        {
            let t = va as *mut u64;
            unsafe { *t.add(idx[0] as usize) = frame | 3 };
            let other = frame ^ 0x2000;
            for (a, b) in [(frame, other), (other, frame)] {
                crate::cpu::CR[3].store(0x5000, SeqCst);
                crate::cpu::drain();
                let ks = rpt_new_switch(va, a, b);
                let ins = crate::cpu::drain();
                let name = |k: i64| ["Ok", "NotRecursive", "NotActive"][k as usize];
                for (k, cr3) in [(ks[0], a), (ks[1], b)] {
                    out.emit(Ev::new("rpt_new").w("addr", va).w("cr3", cr3).w("slot", frame | 3).str("k", name(k)).n("got", -2).n("fills", 0).raw("instrs", "[]"));
                }
                let _ = ins;
                done += 2;
            }
        }
        unsafe { libc::munmap(va as *mut libc::c_void, 4096) };
    }
}

/// RecursivePageTable::new, a switch of the root with Cr3::write, RecursivePageTable::new again
#[inline(never)]
fn rpt_new_switch(va: u64, first_root: u64, new_root: u64) -> [i64; 2] {
    use x86_64::registers::control::{Cr3, Cr3Flags};
    use x86_64::structures::paging::mapper::InvalidPageTable;
    use x86_64::structures::paging::{PhysFrame, RecursivePageTable};
    let code = |r: Result<RecursivePageTable<'_>, InvalidPageTable>| match r {
        Ok(_) => 0,
        Err(InvalidPageTable::NotRecursive) => 1,
        Err(InvalidPageTable::NotActive) => 2,
    };
    unsafe { Cr3::write(PhysFrame::containing_address(x86_64::PhysAddr::new(first_root)), Cr3Flags::empty()) };
    let k1 = code(RecursivePageTable::new(unsafe { &mut *(va as *mut PageTable) }));
    unsafe { Cr3::write(PhysFrame::containing_address(x86_64::PhysAddr::new(new_root)), Cr3Flags::empty()) };
    let k2 = code(RecursivePageTable::new(unsafe { &mut *(va as *mut PageTable) }));
    [k1, k2]
}


// ------------------------------------------------------------------------------------------
// specification -> implementation: replay of TLC-generated stimuli (pre-state + one call)

fn jw(v: &serde_json::Value) -> u64 {
    let a = v.as_array().expect("word");
    (0..4).map(|i| a[i].as_u64().unwrap() << (16 * i)).sum()
}

pub fn run_stimuli(out: &mut Out, path: &str, kind: &str, every: u64, seed: u64) {
    use std::io::BufRead;
    let f = std::fs::File::open(path).unwrap_or_else(|e| {
        eprintln!("xv: cannot open {}: {}", path, e);
        std::process::exit(2)
    });
    let mut r = Rng::new(seed);
    let offset = if kind == "offset" { 0x2345_6000_0000u64 } else { 0 };
    for (ln, line) in std::io::BufReader::new(f).lines().enumerate() {
        let line = line.unwrap();
        if line.trim().is_empty() || (ln as u64 + seed) % every != 0 {
            continue;
        }
        let v: serde_json::Value = serde_json::from_str(&line).expect("stimulus json");
        let rix = v["rix"].as_i64().unwrap();
        if (kind == "recursive") != (rix >= 0) {
            continue;
        }
        let root = jw(&v["root"]);
        let free: Vec<u64> = v["free"].as_array().unwrap().iter().map(jw).collect();
        let mem: Vec<(u64, usize, u64)> = v["mem"].as_array().unwrap().iter().map(|t| (jw(&t[0]), t[1].as_u64().unwrap() as usize, jw(&t[2]))).collect();
        let mut pool = free.clone();
        let tables: Vec<u64> = v["tables"].as_array().unwrap().iter().map(jw).collect();
        for fr in mem.iter().map(|t| t.0).chain(tables.iter().copied()) {
            if fr != root && !pool.contains(&fr) {
                pool.push(fr);
            }
        }
        let st = Setup { kind: kind.to_string(), root, rix, pool: pool.clone(), offset };
        if !install(&st) {
            eprintln!("xv: cannot lay out stimulus {}", ln);
            std::process::exit(2);
        }
        // inject the pre-state: table frames hold exactly the given entries
        with(|sh| {
            for fr in tables.iter().chain(mem.iter().map(|t| &t.0)) {
                if *fr != root {
                    sh.pm.fill(*fr, |_| 0);
                }
            }
            for (fr, i, raw) in &mem {
                sh.pm.write(*fr, *i, *raw);
            }
        });
        let mut mj = String::from("[");
        for (k, (fr, i, raw)) in mem.iter().enumerate() {
            if k > 0 {
                mj.push(',');
            }
            mj.push_str(&format!("[{},{},{}]", limbs(*fr), i, limbs(*raw)));
        }
        mj.push(']');
        out.emit(Ev::new("reset").str("kind", kind).w("root", root).n("rix", rix).w("offset", offset).words("pool", &free).raw("mem", &mj));
        let s = v["s"].as_u64().unwrap() as u8;
        let page = jw(&v["page"]);
        let op = match v["op"].as_str().unwrap() {
            "map" => Op::Map {
                s,
                page,
                frame: jw(&v["frame"]),
                f: jw(&v["F"]),
                pf: jw(&v["PF"]),
                how: 0,
                answers: v["allocs"].as_array().unwrap().iter().map(|a| if a.as_array().map(|x| x.is_empty()).unwrap_or(true) { None } else { Some(jw(a)) }).collect(),
            },
            "unmap" => Op::Unmap { s, page },
            "update" => Op::Update { s, page, f: jw(&v["F"]) },
            "setflags" => Op::SetFlags { s, page, k: v["K"].as_u64().unwrap() as u8, f: jw(&v["F"]) },
            "translate_page" => Op::TranslatePage { s, page },
            "clean" => {
                let (a, b) = (page, jw(&v["b"]));
                Op::Clean { full: a == 0 && b == 0xffff_ffff_ffff_f000, a, b }
            }
            _ => continue,
        };
        let mut w = World { free: free.clone(), kind: kind.to_string(), mix: [0; 6], fail10: 0, rix };
        let rootp = with(|sh| sh.pm.frame_ptr(root).unwrap()) as *mut PageTable;
        let size = 1u64 << (12 + 9 * s as u64);
        let probes = [page, page.wrapping_add(size / 2 + 0x11), canon(page.wrapping_add(size))];
        macro_rules! go {
            ($m:expr) => {{
                exec($m, &mut w, &op, out);
                let pv = *r.pick(&probes);
                exec($m, &mut w, &Op::Translate { va: pv }, out);
                exec($m, &mut w, &Op::Translate { va: probes[0] }, out);
            }};
        }
        match kind {
            "mapped" => {
                let mut m = unsafe { MappedPageTable::new(&mut *rootp, FrameMap) };
                go!(&mut m);
            }
            "offset" => {
                let wp = (offset + root) as *mut PageTable;
                let mut m = unsafe { OffsetPageTable::new(&mut *wp, VirtAddr::new(offset)) };
                go!(&mut m);
            }
            _ => {
                use x86_64::structures::paging::RecursivePageTable;
                let va = rec_va(rix);
                match catch(|| RecursivePageTable::new(unsafe { &mut *(va as *mut PageTable) })) {
                    Some(Ok(mut m)) => {
                        let _ = crate::trap::take_mmu();
                        let _ = crate::cpu::drain();
                        go!(&mut m);
                    }
                    _ => out.emit(Ev::new("rpt_new").w("addr", va).w("cr3", root).w("slot", root | 3).str("k", "failed").n("got", -1).n("fills", 0).raw("instrs", "[]")),
                }
            }
        }
    }
}
