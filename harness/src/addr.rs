//! Driver for the address algebra (C03-C07 and the pure part of C20).
//!
//! The driver only *drives and logs*: every event carries the inputs as observed (raw u64 of
//! the constructed objects) and the raw result; what the result should be is decided by
//! `Trace_Addr.tla`.

use crate::gen::*;
use crate::out::*;
use core::iter::Step;
use x86_64::structures::paging::page::{PageRange, PageRangeInclusive};
use x86_64::structures::paging::frame::{PhysFrameRange, PhysFrameRangeInclusive};
use x86_64::structures::paging::page_table::PageTableLevel;
use x86_64::structures::paging::{
    Page, PageOffset, PageSize, PageTableIndex, PhysFrame, Size1GiB, Size2MiB, Size4KiB,
};
use x86_64::{PhysAddr, VirtAddr};

fn va(x: u64) -> VirtAddr {
    // inputs are made canonical by the driver itself (not by the code under test)
    unsafe { VirtAddr::new_unsafe(canon(x)) }
}
fn pa(x: u64) -> PhysAddr {
    unsafe { PhysAddr::new_unsafe(x & 0x000f_ffff_ffff_ffff) }
}

fn r_va(f: impl FnOnce() -> VirtAddr) -> Res {
    match catch(f) {
        Some(v) => Res::Ok(v.as_u64()),
        None => Res::Panic,
    }
}
fn r_pa(f: impl FnOnce() -> PhysAddr) -> Res {
    match catch(f) {
        Some(v) => Res::Ok(v.as_u64()),
        None => Res::Panic,
    }
}
fn r_u64(f: impl FnOnce() -> u64) -> Res {
    match catch(f) {
        Some(v) => Res::Ok(v),
        None => Res::Panic,
    }
}
fn r_opt(f: impl FnOnce() -> Option<u64>) -> Res {
    match catch(f) {
        Some(Some(v)) => Res::Ok(v),
        Some(None) => Res::None,
        None => Res::Panic,
    }
}
fn r_res(f: impl FnOnce() -> Result<u64, ()>) -> Res {
    match catch(f) {
        Some(Ok(v)) => Res::Ok(v),
        Some(Err(())) => Res::Err,
        None => Res::Panic,
    }
}

fn ev2(op: &str, a: u64, b: u64, s: i64, r: &Res) -> Ev {
    Ev::new(op).w("a", a).w("b", b).n("s", s).res(r)
}

// ------------------------------------------------------------------------------------------
// C03: constructors and programs

pub fn ctor_events(out: &mut Out, x: u64) {
    out.emit(ev2("va_new", x, 0, 0, &r_va(|| VirtAddr::new(x))));
    out.emit(ev2(
        "va_try_new",
        x,
        0,
        0,
        &r_res(|| VirtAddr::try_new(x).map(|v| v.as_u64()).map_err(|_| ())),
    ));
    out.emit(ev2("va_trunc", x, 0, 0, &r_va(|| VirtAddr::new_truncate(x))));
    out.emit(ev2(
        "va_from_ptr",
        x,
        0,
        0,
        &r_va(|| VirtAddr::from_ptr(x as *const u8)),
    ));
    out.emit(ev2("pa_new", x, 0, 0, &r_pa(|| PhysAddr::new(x))));
    out.emit(ev2(
        "pa_try_new",
        x,
        0,
        0,
        &r_res(|| PhysAddr::try_new(x).map(|v| v.as_u64()).map_err(|_| ())),
    ));
    out.emit(ev2("pa_trunc", x, 0, 0, &r_pa(|| PhysAddr::new_truncate(x))));
    // error payloads carry the rejected value; truncation depends only on the low bits
    if let Err(e) = VirtAddr::try_new(x) {
        out.emit(ev2("va_try_new_payload", x, 0, 0, &Res::Ok(e.0)));
    }
    if let Err(e) = PhysAddr::try_new(x) {
        out.emit(ev2("pa_try_new_payload", x, 0, 0, &Res::Ok(e.0)));
    }
}

fn pte_and_idt_events(out: &mut Out, x: u64) {
    use x86_64::structures::idt::Entry;
    use x86_64::structures::paging::page_table::PageTableEntry;
    // PageTableEntry is repr(transparent) over u64
    let e: PageTableEntry = unsafe { core::mem::transmute::<u64, PageTableEntry>(x) };
    out.emit(ev2("pte_addr", x, 0, 0, &r_pa(|| e.addr())));
    // IDT entry given a (canonical) handler address reads it back as an address
    let h = va(x);
    let r = r_va(|| {
        let mut ent: Entry<x86_64::structures::idt::HandlerFunc> = Entry::missing();
        unsafe {
            ent.set_handler_addr(h);
        }
        ent.handler_addr()
    });
    out.emit(ev2("idt_handler_addr", h.as_u64(), 0, 0, &r));
}

/// one random safe operation applied to pool members; result re-enters the pool
fn prog_step(out: &mut Out, r: &mut Rng, lat: &[u64], vs: &mut Vec<u64>, ps: &mut Vec<u64>) {
    let a = *r.pick(vs);
    let p = *r.pick(ps);
    let x = any64(r, lat);
    let aligns: u64 = if r.chance(1, 6) { x } else { 1u64 << r.below(64) };
    let push_v = |vs: &mut Vec<u64>, res: &Res| {
        if let Res::Ok(v) = res {
            if vs.len() < 4096 {
                vs.push(*v)
            } else {
                let i = (*v as usize) % vs.len();
                vs[i] = *v;
            }
        }
    };
    match r.below(22) {
        0 => {
            let res = r_va(|| va(a) + x);
            out.emit(ev2("va_add", a, x, 0, &res));
            push_v(vs, &res);
        }
        1 => {
            let res = r_va(|| va(a) - x);
            out.emit(ev2("va_sub", a, x, 0, &res));
            push_v(vs, &res);
        }
        2 => {
            let res = r_va(|| {
                let mut t = va(a);
                t += x;
                t
            });
            out.emit(ev2("va_add_assign", a, x, 0, &res));
            push_v(vs, &res);
        }
        3 => {
            let res = r_va(|| {
                let mut t = va(a);
                t -= x;
                t
            });
            out.emit(ev2("va_sub_assign", a, x, 0, &res));
            push_v(vs, &res);
        }
        4 => {
            let res = r_va(|| va(a).align_up(aligns));
            out.emit(ev2("va_align_up", a, aligns, 0, &res));
            push_v(vs, &res);
        }
        5 => {
            let res = r_va(|| va(a).align_down(aligns));
            out.emit(ev2("va_align_down", a, aligns, 0, &res));
            push_v(vs, &res);
        }
        6 => {
            let n = if r.chance(1, 2) { x } else { x >> r.below(40) };
            let res = r_opt(|| Step::forward_checked(va(a), n as usize).map(|v| v.as_u64()));
            out.emit(ev2("va_step_fwd", a, n, 0, &res));
            push_v(vs, &res);
        }
        7 => {
            let n = if r.chance(1, 2) { x } else { x >> r.below(40) };
            let res = r_opt(|| Step::backward_checked(va(a), n as usize).map(|v| v.as_u64()));
            out.emit(ev2("va_step_back", a, n, 0, &res));
            push_v(vs, &res);
        }
        8 => {
            let res = r_pa(|| pa(p) + x);
            out.emit(ev2("pa_add", p, x, 0, &res));
            push_v(ps, &res);
        }
        9 => {
            let res = r_pa(|| pa(p) - x);
            out.emit(ev2("pa_sub", p, x, 0, &res));
            push_v(ps, &res);
        }
        10 => {
            let res = r_pa(|| pa(p).align_up(aligns));
            out.emit(ev2("pa_align_up", p, aligns, 0, &res));
            push_v(ps, &res);
        }
        11 => {
            let res = r_pa(|| pa(p).align_down(aligns));
            out.emit(ev2("pa_align_down", p, aligns, 0, &res));
            push_v(ps, &res);
        }
        12 => {
            let s = r.below(3);
            let n = x >> r.below(64);
            let res = page_op(s, a, n, 0);
            out.emit(ev2("pg_add", page_start(s, a), n, s as i64, &res));
            push_v(vs, &res);
        }
        13 => {
            let s = r.below(3);
            let n = x >> r.below(64);
            let res = page_op(s, a, n, 1);
            out.emit(ev2("pg_sub", page_start(s, a), n, s as i64, &res));
            push_v(vs, &res);
        }
        14 => {
            let s = r.below(3);
            let n = x >> r.below(64);
            let res = page_op(s, a, n, 2);
            out.emit(ev2("pg_step_fwd", page_start(s, a), n, s as i64, &res));
            push_v(vs, &res);
        }
        15 => {
            let s = r.below(3);
            let n = x >> r.below(64);
            let res = page_op(s, a, n, 3);
            out.emit(ev2("pg_step_back", page_start(s, a), n, s as i64, &res));
            push_v(vs, &res);
        }
        16 => {
            let s = r.below(3);
            let n = x >> r.below(64);
            let res = frame_op(s, p, n, 0);
            out.emit(ev2("fr_add", frame_start(s, p), n, s as i64, &res));
            push_v(ps, &res);
        }
        17 => {
            let s = r.below(3);
            let n = x >> r.below(64);
            let res = frame_op(s, p, n, 1);
            out.emit(ev2("fr_sub", frame_start(s, p), n, s as i64, &res));
            push_v(ps, &res);
        }
        18 => {
            let s = r.below(3);
            let res = match s {
                0 => r_va(|| Page::<Size4KiB>::containing_address(va(a)).start_address()),
                1 => r_va(|| Page::<Size2MiB>::containing_address(va(a)).start_address()),
                _ => r_va(|| Page::<Size1GiB>::containing_address(va(a)).start_address()),
            };
            out.emit(ev2("pg_containing", a, 0, s as i64, &res));
            push_v(vs, &res);
        }
        19 => {
            let s = r.below(3);
            let res = match s {
                0 => r_pa(|| PhysFrame::<Size4KiB>::containing_address(pa(p)).start_address()),
                1 => r_pa(|| PhysFrame::<Size2MiB>::containing_address(pa(p)).start_address()),
                _ => r_pa(|| PhysFrame::<Size1GiB>::containing_address(pa(p)).start_address()),
            };
            out.emit(ev2("fr_containing", p, 0, s as i64, &res));
            push_v(ps, &res);
        }
        20 => {
            ctor_events(out, x);
            vs.push(VirtAddr::new_truncate(x).as_u64());
            ps.push(PhysAddr::new_truncate(x).as_u64());
        }
        _ => pte_and_idt_events(out, x),
    }
}

fn page_start(s: u64, a: u64) -> u64 {
    // the page containing `a`, computed by the driver (power-of-two mask)
    a & !((1u64 << (12 + 9 * s)) - 1)
}
fn frame_start(s: u64, p: u64) -> u64 {
    (p & 0x000f_ffff_ffff_ffff) & !((1u64 << (12 + 9 * s)) - 1)
}
fn mkpage<S: PageSize>(a: u64) -> Page<S> {
    unsafe { Page::from_start_address_unchecked(va(a)) }
}
fn mkframe<S: PageSize>(a: u64) -> PhysFrame<S> {
    unsafe { PhysFrame::from_start_address_unchecked(pa(a)) }
}

fn page_op_s<S: PageSize>(a: u64, n: u64, which: u32) -> Res {
    let p: Page<S> = mkpage(a);
    match which {
        0 => r_va(|| (p + n).start_address()),
        1 => r_va(|| (p - n).start_address()),
        2 => r_opt(|| Step::forward_checked(p, n as usize).map(|q| q.start_address().as_u64())),
        3 => r_opt(|| Step::backward_checked(p, n as usize).map(|q| q.start_address().as_u64())),
        4 => r_va(|| {
            let mut q = p;
            q += n;
            q.start_address()
        }),
        6 => r_va(|| Step::forward(p, n as usize).start_address()),
        7 => r_va(|| Step::backward(p, n as usize).start_address()),
        // the unsafe entry points: called only when their precondition (the position exists) holds
        8 => match catch(|| Step::forward_checked(p, n as usize)) {
            Some(Some(_)) => r_va(|| unsafe { Step::forward_unchecked(p, n as usize) }.start_address()),
            _ => Res::None,
        },
        9 => match catch(|| Step::backward_checked(p, n as usize)) {
            Some(Some(_)) => r_va(|| unsafe { Step::backward_unchecked(p, n as usize) }.start_address()),
            _ => Res::None,
        },
        _ => r_va(|| {
            let mut q = p;
            q -= n;
            q.start_address()
        }),
    }
}
fn page_op(s: u64, a: u64, n: u64, which: u32) -> Res {
    let st = page_start(s, a);
    match s {
        0 => page_op_s::<Size4KiB>(st, n, which),
        1 => page_op_s::<Size2MiB>(st, n, which),
        _ => page_op_s::<Size1GiB>(st, n, which),
    }
}
fn frame_op_s<S: PageSize>(a: u64, n: u64, which: u32) -> Res {
    let p: PhysFrame<S> = mkframe(a);
    match which {
        0 => r_pa(|| (p + n).start_address()),
        1 => r_pa(|| (p - n).start_address()),
        4 => r_pa(|| {
            let mut q = p;
            q += n;
            q.start_address()
        }),
        _ => r_pa(|| {
            let mut q = p;
            q -= n;
            q.start_address()
        }),
    }
}
fn frame_op(s: u64, a: u64, n: u64, which: u32) -> Res {
    let st = frame_start(s, a);
    match s {
        0 => frame_op_s::<Size4KiB>(st, n, which),
        1 => frame_op_s::<Size2MiB>(st, n, which),
        _ => frame_op_s::<Size1GiB>(st, n, which),
    }
}

pub fn run_c03(out: &mut Out, seed: u64, n: u64) {
    let lat = lattice64();
    for &x in &lat {
        ctor_events(out, x);
        pte_and_idt_events(out, x);
    }
    // pages built from table indices (all three sizes): start addresses in both halves
    for &p4 in &[0u16, 1, 255, 256, 257, 511] {
        for &p3 in &[0u16, 511] {
            from_indices_events(out, p4, p3, 0, 0);
            from_indices_events(out, p4, p3, 511, 511);
        }
    }
    let mut r = Rng::new(seed);
    for _ in 0..n / 8 {
        let x = r.wide();
        ctor_events(out, x);
    }
    let mut vs: Vec<u64> = vec![0, canon(0x7fff_ffff_ffff), canon(0xffff_8000_0000_0000), !0];
    let mut ps: Vec<u64> = vec![0, 0x000f_ffff_ffff_ffff, 0x1000];
    for _ in 0..n {
        prog_step(out, &mut r, &lat, &mut vs, &mut ps);
    }
}

// ------------------------------------------------------------------------------------------
// C04: indices

fn lvl(l: u64) -> PageTableLevel {
    match l {
        1 => PageTableLevel::One,
        2 => PageTableLevel::Two,
        3 => PageTableLevel::Three,
        _ => PageTableLevel::Four,
    }
}

fn index_events(out: &mut Out, a: u64) {
    let v = va(a);
    let a = v.as_u64();
    let ix = |i: PageTableIndex| u64::from(i);
    out.emit(ev2("va_index", a, 0, 1, &r_u64(|| ix(v.p1_index()))));
    out.emit(ev2("va_index", a, 0, 2, &r_u64(|| ix(v.p2_index()))));
    out.emit(ev2("va_index", a, 0, 3, &r_u64(|| ix(v.p3_index()))));
    out.emit(ev2("va_index", a, 0, 4, &r_u64(|| ix(v.p4_index()))));
    for l in 1..=4u64 {
        out.emit(ev2(
            "va_index",
            a,
            1,
            l as i64,
            &r_u64(|| ix(v.page_table_index(lvl(l)))),
        ));
    }
    out.emit(ev2(
        "va_page_offset",
        a,
        0,
        0,
        &r_u64(|| u64::from(v.page_offset())),
    ));
    // pages of every size: index accessors of the containing page
    let p4k: Page<Size4KiB> = mkpage(page_start(0, a));
    let p2m: Page<Size2MiB> = mkpage(page_start(1, a));
    let p1g: Page<Size1GiB> = mkpage(page_start(2, a));
    let e = |out: &mut Out, st: u64, s: i64, l: i64, by: u64, r: Res| {
        out.emit(Ev::new("pg_index").w("a", st).w("b", by).n("s", s).n("l", l).res(&r));
    };
    let s0 = p4k.start_address().as_u64();
    e(out, s0, 0, 1, 0, r_u64(|| ix(p4k.p1_index())));
    e(out, s0, 0, 2, 0, r_u64(|| ix(p4k.p2_index())));
    e(out, s0, 0, 3, 0, r_u64(|| ix(p4k.p3_index())));
    e(out, s0, 0, 4, 0, r_u64(|| ix(p4k.p4_index())));
    let s1 = p2m.start_address().as_u64();
    e(out, s1, 1, 2, 0, r_u64(|| ix(p2m.p2_index())));
    e(out, s1, 1, 3, 0, r_u64(|| ix(p2m.p3_index())));
    e(out, s1, 1, 4, 0, r_u64(|| ix(p2m.p4_index())));
    let s2 = p1g.start_address().as_u64();
    e(out, s2, 2, 3, 0, r_u64(|| ix(p1g.p3_index())));
    e(out, s2, 2, 4, 0, r_u64(|| ix(p1g.p4_index())));
    for l in 1..=4u64 {
        e(out, s0, 0, l as i64, 1, r_u64(|| ix(p4k.page_table_index(lvl(l)))));
        e(out, s1, 1, l as i64, 1, r_u64(|| ix(p2m.page_table_index(lvl(l)))));
        e(out, s2, 2, l as i64, 1, r_u64(|| ix(p1g.page_table_index(lvl(l)))));
    }
}

fn from_indices_events(out: &mut Out, p4: u16, p3: u16, p2: u16, p1: u16) {
    let i = |x: u16| PageTableIndex::new(x);
    let e = |out: &mut Out, s: i64, r: Res| {
        out.emit(
            Ev::new("pg_from_indices")
                .ints("idx", &[p4 as i64, p3 as i64, p2 as i64, p1 as i64])
                .n("s", s)
                .res(&r),
        );
    };
    e(
        out,
        0,
        r_va(|| Page::from_page_table_indices(i(p4), i(p3), i(p2), i(p1)).start_address()),
    );
    e(
        out,
        1,
        r_va(|| Page::from_page_table_indices_2mib(i(p4), i(p3), i(p2)).start_address()),
    );
    e(
        out,
        2,
        r_va(|| Page::from_page_table_indices_1gib(i(p4), i(p3)).start_address()),
    );
}

/// all 65536 u16 inputs of the four small constructors, 256 per event
fn small_codec_blocks(out: &mut Out) {
    for base in (0..65536u32).step_by(256) {
        let mut idx_new = Vec::with_capacity(256);
        let mut idx_tr = Vec::with_capacity(256);
        let mut off_new = Vec::with_capacity(256);
        let mut off_tr = Vec::with_capacity(256);
        for d in 0..256u32 {
            let x = (base + d) as u16;
            idx_new.push(
                catch(|| u16::from(PageTableIndex::new(x)) as i64).unwrap_or(-1),
            );
            idx_tr.push(catch(|| u16::from(PageTableIndex::new_truncate(x)) as i64).unwrap_or(-1));
            off_new.push(catch(|| u16::from(PageOffset::new(x)) as i64).unwrap_or(-1));
            off_tr.push(catch(|| u16::from(PageOffset::new_truncate(x)) as i64).unwrap_or(-1));
        }
        out.emit(
            Ev::new("small_codecs")
                .n("base", base as i64)
                .ints("idx_new", &idx_new)
                .ints("idx_trunc", &idx_tr)
                .ints("off_new", &off_new)
                .ints("off_trunc", &off_tr),
        );
    }
    // conversions of an index / offset to the integer types agree
    for x in [0u16, 1, 255, 256, 511] {
        let i = PageTableIndex::new(x);
        let all = [
            u16::from(i) as u64,
            u32::from(i) as u64,
            u64::from(i),
            usize::from(i) as u64,
        ];
        out.emit(Ev::new("idx_conv").n("x", x as i64).words("vals", &all));
    }
    for x in [0u16, 1, 2047, 2048, 4095] {
        let o = PageOffset::new(x);
        let all = [
            u16::from(o) as u64,
            u32::from(o) as u64,
            u64::from(o),
            usize::from(o) as u64,
        ];
        out.emit(Ev::new("idx_conv").n("x", x as i64).words("vals", &all));
    }
}

fn level_events(out: &mut Out) {
    for l in 1..=4u64 {
        let lv = lvl(l);
        out.emit(ev2(
            "lvl_next_lower",
            0,
            0,
            l as i64,
            &r_opt(|| lv.next_lower_level().map(|x| x as u64)),
        ));
        out.emit(ev2(
            "lvl_next_higher",
            0,
            0,
            l as i64,
            &r_opt(|| lv.next_higher_level().map(|x| x as u64)),
        ));
        out.emit(ev2(
            "lvl_table_align",
            0,
            0,
            l as i64,
            &r_u64(|| lv.table_address_space_alignment()),
        ));
        out.emit(ev2(
            "lvl_entry_align",
            0,
            0,
            l as i64,
            &r_u64(|| lv.entry_address_space_alignment()),
        ));
        out.emit(ev2("lvl_value", 0, 0, l as i64, &Res::Ok(lv as u64)));
    }
}

pub const IDX_LATTICE: [u16; 14] = [0, 1, 2, 127, 128, 254, 255, 256, 257, 383, 384, 509, 510, 511];

pub fn run_c04(out: &mut Out, seed: u64, n: u64) {
    let lat = lattice_canon();
    for &a in &lat {
        index_events(out, a);
    }
    let mut r = Rng::new(seed);
    for _ in 0..n / 40 {
        let a = canon(r.wide());
        index_events(out, a);
    }
    for &p4 in &IDX_LATTICE {
        for &p3 in &IDX_LATTICE {
            for &p2 in &IDX_LATTICE {
                for &p1 in &IDX_LATTICE {
                    // the full 14^4 product is in the thorough tier; quick takes a 1/7 slice
                    if n >= 200_000 || (p4 as u64 * 7 + p3 as u64 * 3 + p2 as u64 + p1 as u64 + seed) % 7 == 0 {
                        from_indices_events(out, p4, p3, p2, p1);
                    }
                }
            }
        }
    }
    for _ in 0..n / 6 {
        from_indices_events(
            out,
            r.below(512) as u16,
            r.below(512) as u16,
            r.below(512) as u16,
            r.below(512) as u16,
        );
    }
    small_codec_blocks(out);
    level_events(out);
    // an index obtained by stepping is an index too (< 512)
    for i in [0u16, 1, 255, 256, 510, 511] {
        for c in [0u64, 1, 2, 255, 256, 511, 512, 513, 0xffff, u64::MAX] {
            idx_step_events(out, i, 511 - i, c);
        }
    }
}

// ------------------------------------------------------------------------------------------
// C05: stepping

fn counts(r: &mut Rng, lat: &[u64]) -> u64 {
    match r.below(6) {
        0 => *r.pick(lat),
        1 => r.wide(),
        2 => (1u64 << 48).wrapping_add(r.below(5)).wrapping_sub(2),
        3 => (1u64 << 36).wrapping_add(r.below(5)).wrapping_sub(2),
        4 => r.below(1 << 20),
        _ => u64::MAX - r.below(3),
    }
}

fn steps_between_ev(out: &mut Out, op: &str, a: u64, b: u64, s: i64, r: Option<(usize, Option<usize>)>) {
    let (res, lo) = match r {
        Some((lo, Some(hi))) => (Res::Ok(hi as u64), lo as u64),
        Some((lo, None)) => (Res::None, lo as u64),
        None => (Res::Panic, 0),
    };
    out.emit(ev2(op, a, b, s, &res).w("lo", lo));
}

fn step_events(out: &mut Out, a: u64, b: u64, n: u64) {
    let v = va(a);
    let w = va(b);
    let (a, b) = (v.as_u64(), w.as_u64());
    out.emit(ev2(
        "va_step_fwd",
        a,
        n,
        0,
        &r_opt(|| Step::forward_checked(v, n as usize).map(|x| x.as_u64())),
    ));
    out.emit(ev2(
        "va_step_back",
        a,
        n,
        0,
        &r_opt(|| Step::backward_checked(v, n as usize).map(|x| x.as_u64())),
    ));
    steps_between_ev(out, "va_steps_between", a, b, 0, catch(|| Step::steps_between(&v, &w)));
    // the unchecked entry points (what `(x..)` iteration uses): the same position when it exists
    out.emit(ev2("va_step_fwd_u", a, n, 0, &r_va(|| Step::forward(v, n as usize))));
    out.emit(ev2("va_step_back_u", a, n, 0, &r_va(|| Step::backward(v, n as usize))));
    let fu = match catch(|| Step::forward_checked(v, n as usize)) {
        Some(Some(_)) => r_va(|| unsafe { Step::forward_unchecked(v, n as usize) }),
        _ => Res::None,
    };
    out.emit(ev2("va_step_fwd_uu", a, n, 0, &fu));
    let bu = match catch(|| Step::backward_checked(v, n as usize)) {
        Some(Some(_)) => r_va(|| unsafe { Step::backward_unchecked(v, n as usize) }),
        _ => Res::None,
    };
    out.emit(ev2("va_step_back_uu", a, n, 0, &bu));
    for s in 0..3u64 {
        let (pa_, pb_) = (page_start(s, a), page_start(s, b));
        out.emit(ev2("pg_step_fwd", pa_, n, s as i64, &page_op(s, a, n, 2)));
        out.emit(ev2("pg_step_back", pa_, n, s as i64, &page_op(s, a, n, 3)));
        out.emit(ev2("pg_step_fwd_u", pa_, n, s as i64, &page_op(s, a, n, 6)));
        out.emit(ev2("pg_step_back_u", pa_, n, s as i64, &page_op(s, a, n, 7)));
        out.emit(ev2("pg_step_fwd_uu", pa_, n, s as i64, &page_op(s, a, n, 8)));
        out.emit(ev2("pg_step_back_uu", pa_, n, s as i64, &page_op(s, a, n, 9)));
        let sb = match s {
            0 => catch(|| Step::steps_between(&mkpage::<Size4KiB>(pa_), &mkpage::<Size4KiB>(pb_))),
            1 => catch(|| Step::steps_between(&mkpage::<Size2MiB>(pa_), &mkpage::<Size2MiB>(pb_))),
            _ => catch(|| Step::steps_between(&mkpage::<Size1GiB>(pa_), &mkpage::<Size1GiB>(pb_))),
        };
        steps_between_ev(out, "pg_steps_between", pa_, pb_, s as i64, sb);
    }
}

fn idx_step_events(out: &mut Out, i: u16, j: u16, n: u64) {
    let (x, y) = (PageTableIndex::new(i), PageTableIndex::new(j));
    out.emit(ev2(
        "idx_step_fwd",
        i as u64,
        n,
        0,
        &r_opt(|| Step::forward_checked(x, n as usize).map(u64::from)),
    ));
    out.emit(ev2(
        "idx_step_back",
        i as u64,
        n,
        0,
        &r_opt(|| Step::backward_checked(x, n as usize).map(u64::from)),
    ));
    out.emit(ev2("idx_step_fwd_u", i as u64, n, 0, &r_u64(|| u64::from(Step::forward(x, n as usize)))));
    out.emit(ev2("idx_step_back_u", i as u64, n, 0, &r_u64(|| u64::from(Step::backward(x, n as usize)))));
    let fu = match catch(|| Step::forward_checked(x, n as usize)) {
        Some(Some(_)) => r_u64(|| u64::from(unsafe { Step::forward_unchecked(x, n as usize) })),
        _ => Res::None,
    };
    out.emit(ev2("idx_step_fwd_uu", i as u64, n, 0, &fu));
    let bu = match catch(|| Step::backward_checked(x, n as usize)) {
        Some(Some(_)) => r_u64(|| u64::from(unsafe { Step::backward_unchecked(x, n as usize) })),
        _ => Res::None,
    };
    out.emit(ev2("idx_step_back_uu", i as u64, n, 0, &bu));
    steps_between_ev(
        out,
        "idx_steps_between",
        i as u64,
        j as u64,
        0,
        catch(|| Step::steps_between(&x, &y)),
    );
}

pub fn run_c05(out: &mut Out, seed: u64, n: u64) {
    let lat = lattice64();
    let mut r = Rng::new(seed);
    // boundary starts: ends of both halves +- 2 pages / bytes, zero
    let mut starts: Vec<u64> = Vec::new();
    for base in [0u64, 0x0000_7fff_ffff_ffff, 0xffff_8000_0000_0000, u64::MAX, 0x0000_4000_0000_0000, 0xffff_c000_0000_0000] {
        for d in [-0x2000i64, -0x1000, -2, -1, 0, 1, 2, 0x1000, 0x2000, -0x40000000, 0x200000] {
            starts.push(canon(base.wrapping_add(d as u64)));
        }
    }
    starts.sort_unstable();
    starts.dedup();
    let bcounts: Vec<u64> = {
        let mut v = vec![0u64, 1, 2, 0x1000, 0xfff, 0x7fff_ffff_ffff, 0x8000_0000_0000, 0x8000_0000_0001,
            0xffff_ffff_ffff, 0x1_0000_0000_0000, 0x1_0000_0000_0001, 0xf_ffff_ffff, 0x10_0000_0000, 0x10_0000_0001,
            0x7_ffff_ffff, 0x8_0000_0000, 0x7ff_ffff, 0x800_0000, 0x3_ffff, 0x4_0000, u64::MAX, u64::MAX - 1,
            0x000f_fff8_0000_0000, 0x0010_0000_0000_0000, 1 << 52, 1 << 63];
        v.sort_unstable();
        v
    };
    for &a in &starts {
        for &c in &bcounts {
            let b = *r.pick(&starts);
            step_events(out, a, b, c);
        }
    }
    for _ in 0..n / 16 {
        let a = canon(any64(&mut r, &lat));
        let b = if r.chance(1, 3) { a.wrapping_add(r.below(1 << 30)) } else { any64(&mut r, &lat) };
        let c = counts(&mut r, &lat);
        step_events(out, a, canon(b), c);
    }
    // all 512 indices x boundary counts
    let icounts: [u64; 14] = [0, 1, 2, 255, 256, 510, 511, 512, 513, 0xffff, 0x1_0000, 0x1_0003, u64::MAX, 1 << 32];
    for i in 0..512u16 {
        for &c in &icounts {
            let j = r.below(512) as u16;
            idx_step_events(out, i, j, c);
        }
        idx_step_events(out, i, i, (511 - i) as u64);
        idx_step_events(out, i, 511 - i, i as u64);
        idx_step_events(out, i, 0, (512 - i) as u64);
    }
}

// ------------------------------------------------------------------------------------------
// C06: alignment and containment

fn align_events(out: &mut Out, a: u64, al: u64) {
    out.emit(ev2("align_up", a, al, 0, &r_u64(|| x86_64::align_up(a, al))));
    out.emit(ev2("align_down", a, al, 0, &r_u64(|| x86_64::align_down(a, al))));
    let v = va(a);
    out.emit(ev2("va_align_up", v.as_u64(), al, 0, &r_va(|| v.align_up(al))));
    out.emit(ev2("va_align_down", v.as_u64(), al, 0, &r_va(|| v.align_down(al))));
    if al.is_power_of_two() {
        out.emit(ev2(
            "va_is_aligned",
            v.as_u64(),
            al,
            0,
            &r_u64(|| v.is_aligned(al) as u64),
        ));
    }
    let p = pa(a);
    out.emit(ev2("pa_align_up", p.as_u64(), al, 0, &r_pa(|| p.align_up(al))));
    out.emit(ev2("pa_align_down", p.as_u64(), al, 0, &r_pa(|| p.align_down(al))));
    if al.is_power_of_two() {
        out.emit(ev2(
            "pa_is_aligned",
            p.as_u64(),
            al,
            0,
            &r_u64(|| p.is_aligned(al) as u64),
        ));
    }
}

fn contain_events(out: &mut Out, a: u64) {
    let v = va(a);
    let p = pa(a);
    macro_rules! both {
        ($S:ty, $s:expr) => {
            out.emit(ev2(
                "pg_containing",
                v.as_u64(),
                0,
                $s,
                &r_va(|| Page::<$S>::containing_address(v).start_address()),
            ));
            out.emit(ev2(
                "pg_from_start",
                v.as_u64(),
                0,
                $s,
                &r_res(|| {
                    Page::<$S>::from_start_address(v)
                        .map(|p| p.start_address().as_u64())
                        .map_err(|_| ())
                }),
            ));
            out.emit(ev2(
                "fr_containing",
                p.as_u64(),
                0,
                $s,
                &r_pa(|| PhysFrame::<$S>::containing_address(p).start_address()),
            ));
            out.emit(ev2(
                "fr_from_start",
                p.as_u64(),
                0,
                $s,
                &r_res(|| {
                    PhysFrame::<$S>::from_start_address(p)
                        .map(|p| p.start_address().as_u64())
                        .map_err(|_| ())
                }),
            ));
            out.emit(ev2(
                "pg_size",
                0,
                0,
                $s,
                &Res::Ok(Page::<$S>::containing_address(v).size()),
            ));
            out.emit(ev2("pg_size", 1, 0, $s, &Res::Ok(<$S as PageSize>::SIZE)));
            out.emit(ev2("pg_size", 2, 0, $s, &Res::Ok(Page::<$S>::SIZE)));
            out.emit(ev2(
                "pg_size",
                3,
                0,
                $s,
                &Res::Ok(PhysFrame::<$S>::containing_address(p).size()),
            ));
        };
    }
    both!(Size4KiB, 0);
    both!(Size2MiB, 1);
    both!(Size1GiB, 2);
}

pub fn run_c06(out: &mut Out, seed: u64, n: u64) {
    let lat = lattice64();
    let mut r = Rng::new(seed);
    let mut aligns: Vec<u64> = (0..64).map(|k| 1u64 << k).collect();
    aligns.extend_from_slice(&[0, 3, 5, 6, 7, 9, 0x1001, 0xfff, 0x1800, u64::MAX, u64::MAX - 1, (1 << 47) + 1, (1 << 63) + 1, 0xc000_0000_0000_0000]);
    // every lattice address against a rotating slice of the alignments (all 64 powers are
    // covered several times over), plus random pairs
    for (i, &a) in lat.iter().enumerate() {
        for j in 0..12 {
            let al = aligns[(i * 7 + j * 13 + seed as usize) % aligns.len()];
            align_events(out, a, al);
        }
        contain_events(out, a);
    }
    for &al in &aligns {
        for _ in 0..3 {
            let a = any64(&mut r, &lat);
            align_events(out, a, al);
        }
    }
    for _ in 0..n / 10 {
        let a = any64(&mut r, &lat);
        let al = if r.chance(5, 6) { 1u64 << r.below(64) } else { r.wide() };
        align_events(out, a, al);
        if r.chance(1, 3) {
            contain_events(out, a);
        }
    }
}

// ------------------------------------------------------------------------------------------
// C07: arithmetic and ranges

fn arith_events(out: &mut Out, a: u64, n: u64) {
    let v = va(a);
    let p = pa(a);
    let (av, ap) = (v.as_u64(), p.as_u64());
    out.emit(ev2("va_add", av, n, 0, &r_va(|| v + n)));
    out.emit(ev2("va_sub", av, n, 0, &r_va(|| v - n)));
    out.emit(ev2("va_add_assign", av, n, 0, &r_va(|| { let mut t = v; t += n; t })));
    out.emit(ev2("va_sub_assign", av, n, 0, &r_va(|| { let mut t = v; t -= n; t })));
    out.emit(ev2("pa_add", ap, n, 0, &r_pa(|| p + n)));
    out.emit(ev2("pa_sub", ap, n, 0, &r_pa(|| p - n)));
    out.emit(ev2("pa_add_assign", ap, n, 0, &r_pa(|| { let mut t = p; t += n; t })));
    out.emit(ev2("pa_sub_assign", ap, n, 0, &r_pa(|| { let mut t = p; t -= n; t })));
    let w = va(n);
    out.emit(ev2("va_diff", av, w.as_u64(), 0, &r_u64(|| v - w)));
    let q = pa(n);
    out.emit(ev2("pa_diff", ap, q.as_u64(), 0, &r_u64(|| p - q)));
    for s in 0..3u64 {
        let (ps_, fs_) = (page_start(s, av), frame_start(s, ap));
        out.emit(ev2("pg_add", ps_, n, s as i64, &page_op(s, av, n, 0)));
        out.emit(ev2("pg_sub", ps_, n, s as i64, &page_op(s, av, n, 1)));
        out.emit(ev2("pg_add_assign", ps_, n, s as i64, &page_op(s, av, n, 4)));
        out.emit(ev2("pg_sub_assign", ps_, n, s as i64, &page_op(s, av, n, 5)));
        out.emit(ev2("fr_add", fs_, n, s as i64, &frame_op(s, ap, n, 0)));
        out.emit(ev2("fr_sub", fs_, n, s as i64, &frame_op(s, ap, n, 1)));
        out.emit(ev2("fr_add_assign", fs_, n, s as i64, &frame_op(s, ap, n, 4)));
        out.emit(ev2("fr_sub_assign", fs_, n, s as i64, &frame_op(s, ap, n, 5)));
        let (pb_, fb_) = (page_start(s, w.as_u64()), frame_start(s, q.as_u64()));
        let d = match s {
            0 => r_u64(|| mkpage::<Size4KiB>(ps_) - mkpage::<Size4KiB>(pb_)),
            1 => r_u64(|| mkpage::<Size2MiB>(ps_) - mkpage::<Size2MiB>(pb_)),
            _ => r_u64(|| mkpage::<Size1GiB>(ps_) - mkpage::<Size1GiB>(pb_)),
        };
        out.emit(ev2("pg_diff", ps_, pb_, s as i64, &d));
        let d = match s {
            0 => r_u64(|| mkframe::<Size4KiB>(fs_) - mkframe::<Size4KiB>(fb_)),
            1 => r_u64(|| mkframe::<Size2MiB>(fs_) - mkframe::<Size2MiB>(fb_)),
            _ => r_u64(|| mkframe::<Size1GiB>(fs_) - mkframe::<Size1GiB>(fb_)),
        };
        out.emit(ev2("fr_diff", fs_, fb_, s as i64, &d));
    }
}

const RANGE_CAP: usize = 700;

/// iterate a range completely (bounded), logging everything it yields
fn drain<I: Iterator<Item = u64>>(mut it: I) -> (Vec<u64>, &'static str) {
    let mut items = Vec::new();
    loop {
        match catch(|| it.next()) {
            Some(Some(x)) => {
                items.push(x);
                if items.len() > RANGE_CAP + 8 {
                    return (items, "overrun");
                }
            }
            Some(None) => return (items, "ok"),
            None => return (items, "panic"),
        }
    }
}

fn range_ev(out: &mut Out, op: &str, a: u64, b: u64, s: i64, incl: i64, len: Res, size: Res, empty: Res, it: Option<(Vec<u64>, &'static str)>) {
    let mut e = Ev::new(op)
        .w("a", a)
        .w("b", b)
        .n("s", s)
        .n("incl", incl)
        .raw("len", &len.json())
        .raw("size", &size.json())
        .raw("empty", &empty.json());
    match it {
        Some((items, k)) => {
            e = e.n("iter", 1).str("itk", k).words("items", &items);
        }
        None => {
            e = e.n("iter", 0).str("itk", "ok").words("items", &[]);
        }
    }
    out.emit(e);
}

/// the adaptors every iterator offers (nth, skip, step_by, count, last, size_hint) over a short range: they must agree
/// with plain iteration and never panic
fn adapt_ev<T, I: Iterator<Item = T> + Clone>(out: &mut Out, op: &str, a: u64, b: u64, s: i64, incl: i64, it: I, f: fn(T) -> u64, cnt: usize) {
    // (the adaptors are called on the range type itself, so that its own overrides of nth / size_hint / ... run)
    let ks: Vec<u64> = [0usize, 1, 2, cnt.saturating_sub(1), cnt, cnt + 1, cnt + 5, 3 * cnt + 7].iter().map(|&k| k as u64).collect();
    let list = |v: &[Res]| format!("[{}]", v.iter().map(|r| r.json()).collect::<Vec<_>>().join(","));
    let nth: Vec<Res> = ks.iter().map(|&k| { let mut i = it.clone(); r_opt(move || i.nth(k as usize).map(f)) }).collect();
    let skip: Vec<Res> = ks.iter().map(|&k| { let i = it.clone(); r_opt(move || i.skip(k as usize).next().map(f)) }).collect();
    let m = 1 + (a >> 12) as usize % 3 + (cnt % 2);
    let (stepped, stepk) = match catch({ let i = it.clone(); move || i.step_by(m).take(RANGE_CAP + 8).map(f).collect::<Vec<u64>>() }) {
        Some(v) => (v, "ok"),
        None => (vec![], "panic"),
    };
    let count = { let i = it.clone(); r_u64(move || i.count() as u64) };
    let last = { let i = it.clone(); r_opt(move || i.last().map(f)) };
    let (lo, hi) = catch({ let i = it.clone(); move || i.size_hint() }).unwrap_or((usize::MAX, Some(0)));
    out.emit(
        Ev::new(op)
            .w("a", a).w("b", b).n("s", s).n("incl", incl).n("cnt", cnt as i64)
            .ints("ks", &ks.iter().map(|&k| k as i64).collect::<Vec<_>>())
            .raw("nth", &list(&nth)).raw("skip", &list(&skip))
            .n("m", m as i64).str("stepk", stepk).words("stepped", &stepped)
            .raw("count", &count.json()).raw("last", &last.json())
            .n("hint_lo", lo.min(1 << 30) as i64).n("hint_hi", hi.map(|h| h.min(1 << 30) as i64).unwrap_or(-1)),
    );
}

fn page_range_s<S: PageSize>(out: &mut Out, s: i64, a: u64, b: u64, iterate: bool) {
    let (st, en): (Page<S>, Page<S>) = (mkpage(a), mkpage(b));
    let rg: PageRange<S> = Page::range(st, en);
    let ri: PageRangeInclusive<S> = Page::range_inclusive(st, en);
    range_ev(
        out, "pg_range", a, b, s, 0,
        r_u64(|| rg.len()), r_u64(|| rg.size()), r_u64(|| rg.is_empty() as u64),
        if iterate { Some(drain(rg.map(|p| p.start_address().as_u64()))) } else { None },
    );
    range_ev(
        out, "pg_range", a, b, s, 1,
        r_u64(|| ri.len()), r_u64(|| ri.size()), r_u64(|| ri.is_empty() as u64),
        if iterate { Some(drain(ri.map(|p| p.start_address().as_u64()))) } else { None },
    );
    if iterate {
        let (n0, k0) = drain(rg.map(|p| p.start_address().as_u64()));
        if k0 == "ok" && n0.len() <= RANGE_CAP {
            adapt_ev(out, "pg_range_adapt", a, b, s, 0, rg, |p: Page<S>| p.start_address().as_u64(), n0.len());
        }
        let (n1, k1) = drain(ri.map(|p| p.start_address().as_u64()));
        if k1 == "ok" && n1.len() <= RANGE_CAP {
            adapt_ev(out, "pg_range_adapt", a, b, s, 1, ri, |p: Page<S>| p.start_address().as_u64(), n1.len());
        }
    }
}
fn frame_range_s<S: PageSize>(out: &mut Out, s: i64, a: u64, b: u64, iterate: bool) {
    let (st, en): (PhysFrame<S>, PhysFrame<S>) = (mkframe(a), mkframe(b));
    let rg: PhysFrameRange<S> = PhysFrame::range(st, en);
    let ri: PhysFrameRangeInclusive<S> = PhysFrame::range_inclusive(st, en);
    range_ev(
        out, "fr_range", a, b, s, 0,
        r_u64(|| rg.len()), r_u64(|| rg.size()), r_u64(|| rg.is_empty() as u64),
        if iterate { Some(drain(rg.map(|p| p.start_address().as_u64()))) } else { None },
    );
    range_ev(
        out, "fr_range", a, b, s, 1,
        r_u64(|| ri.len()), r_u64(|| ri.size()), r_u64(|| ri.is_empty() as u64),
        if iterate { Some(drain(ri.map(|p| p.start_address().as_u64()))) } else { None },
    );
    if iterate {
        let (n0, k0) = drain(rg.map(|p| p.start_address().as_u64()));
        if k0 == "ok" && n0.len() <= RANGE_CAP {
            adapt_ev(out, "fr_range_adapt", a, b, s, 0, rg, |p: PhysFrame<S>| p.start_address().as_u64(), n0.len());
        }
        let (n1, k1) = drain(ri.map(|p| p.start_address().as_u64()));
        if k1 == "ok" && n1.len() <= RANGE_CAP {
            adapt_ev(out, "fr_range_adapt", a, b, s, 1, ri, |p: PhysFrame<S>| p.start_address().as_u64(), n1.len());
        }
    }
}

/// a range of `cnt` items (exclusive) ending `back` items before `anchor_end` (a start address
/// of the last page/frame of interest), all computed by the driver with plain integers
fn range_events(out: &mut Out, virt: bool, s: u64, start: u64, cnt: u64, iterate: bool) {
    let size = 1u64 << (12 + 9 * s);
    let end = start.wrapping_add(cnt.wrapping_mul(size));
    if virt {
        let (a, b) = (page_start(s, canon(start)), page_start(s, canon(end)));
        match s {
            0 => page_range_s::<Size4KiB>(out, 0, a, b, iterate),
            1 => page_range_s::<Size2MiB>(out, 1, a, b, iterate),
            _ => page_range_s::<Size1GiB>(out, 2, a, b, iterate),
        }
        if s == 1 {
            let rg = Page::range(mkpage::<Size2MiB>(a), mkpage::<Size2MiB>(b));
            let r4 = catch(|| rg.as_4kib_page_range());
            let (k, ra, rb) = match r4 {
                Some(q) => ("ok", q.start.start_address().as_u64(), q.end.start_address().as_u64()),
                None => ("panic", 0, 0),
            };
            out.emit(Ev::new("pg_range_as4k").w("a", a).w("b", b).str("k", k).w("ra", ra).w("rb", rb));
        }
    } else {
        let (a, b) = (frame_start(s, start), frame_start(s, end));
        match s {
            0 => frame_range_s::<Size4KiB>(out, 0, a, b, iterate),
            1 => frame_range_s::<Size2MiB>(out, 1, a, b, iterate),
            _ => frame_range_s::<Size1GiB>(out, 2, a, b, iterate),
        }
    }
}

pub fn run_c07(out: &mut Out, seed: u64, n: u64) {
    let lat = lattice64();
    let mut r = Rng::new(seed);
    // boundary-dense arithmetic: addresses near every boundary x offsets that cross it
    let bases: Vec<u64> = vec![0, 0x1000, 0x0000_7fff_ffff_f000, 0x0000_7fff_ffff_ffff, 0xffff_8000_0000_0000,
        0xffff_8000_0000_1000, 0xffff_ffff_ffff_f000, u64::MAX, 0x000f_ffff_ffff_f000, 0x000f_ffff_ffff_ffff,
        0x0000_7fff_c000_0000, 0xffff_ffff_c000_0000, 0x000f_ffff_c000_0000, 0x0000_7fff_ffe0_0000];
    let offs: Vec<u64> = vec![0, 1, 2, 0xfff, 0x1000, 0x1001, 0x20_0000, 0x4000_0000, 0x7fff_ffff_ffff, 0x8000_0000_0000,
        0xffff_0000_0000_0000, 0xffff_8000_0000_0000, 0xffff_ffff_ffff_f000, u64::MAX, u64::MAX - 0xfff, 1 << 52, (1 << 52) + 0x1000,
        0xfff0_0000_0000_0000, 0xfff0_0000_0000_1000, 0x0010_0000_0000_0000, 0x0008_0000_0000_0000, 0x000f_ffff_ffff_ffff,
        0x8_0000_0000, 0x7_ffff_ffff, 0x400_0000, 0x2_0000, 0x1_0000, 0xffff_ffff, 1 << 63, (1 << 63) + 1];
    for &a in &bases {
        for &o in &offs {
            arith_events(out, a, o);
        }
    }
    for _ in 0..n / 60 {
        let a = any64(&mut r, &lat);
        let o = match r.below(4) {
            0 => any64(&mut r, &lat),
            1 => r.wide(),
            2 => 0u64.wrapping_sub(a).wrapping_add(r.below(0x3000)).wrapping_sub(0x1000),
            _ => r.below(1 << 22),
        };
        arith_events(out, a, o);
    }
    // ranges: ending at / starting before each anchor
    let vanchors: [u64; 4] = [0x0000_8000_0000_0000, 0, 0x0000_1234_5678_9000, 0xffff_9000_0000_0000];
    let panchors: [u64; 3] = [1 << 52, 0x40_0000_0000, 0x1234_5678_9000];
    for s in 0..3u64 {
        let size = 1u64 << (12 + 9 * s);
        for &anchor in &vanchors {
            // anchor (or 2^64 for anchor 0) = one past the last page of interest
            for cnt in [0u64, 1, 2, 3, 17] {
                for back in [0u64, 1, 2] {
                    // exclusive end = anchor - back*size ; start = end - cnt*size
                    let end = anchor.wrapping_sub(back * size);
                    let start = end.wrapping_sub(cnt * size);
                    // inclusive ranges use (start, end - size) so that the last page is the one before `end`
                    range_events(out, true, s, start, cnt, true);
                    if cnt > 0 {
                        range_events(out, true, s, start, cnt - 1, true);
                    }
                }
            }
            // empty / reversed
            range_events(out, true, s, anchor.wrapping_sub(size), 0u64.wrapping_sub(1), true);
        }
        for &anchor in &panchors {
            for cnt in [0u64, 1, 2, 3, 17] {
                for back in [0u64, 1, 2] {
                    let end = anchor.wrapping_sub(back * size);
                    let start = end.wrapping_sub(cnt * size);
                    range_events(out, false, s, start, cnt, true);
                    if cnt > 0 {
                        range_events(out, false, s, start, cnt - 1, true);
                    }
                }
            }
        }
    }
    // starting at 0 / first page of upper half
    for s in 0..3u64 {
        for st in [0u64, 0xffff_8000_0000_0000] {
            for cnt in [0u64, 1, 5] {
                range_events(out, true, s, st, cnt, true);
            }
        }
        range_events(out, false, s, 0, 4, true);
    }
    // random interior ranges, random lengths up to the cap; and len()/size() of long ranges
    for _ in 0..n / 200 {
        let s = r.below(3);
        let size = 1u64 << (12 + 9 * s);
        let cnt = r.below(RANGE_CAP as u64 - 2);
        let virt = r.chance(1, 2);
        let start = if virt {
            let half = r.chance(1, 2);
            let room = (1u64 << 47) - (cnt + 2) * size.min(1 << 30).max(size) % (1u64 << 47);
            let o = r.below(room.max(1));
            if half { 0xffff_8000_0000_0000u64.wrapping_add(o) } else { o }
        } else {
            r.below((1u64 << 52) - (cnt + 2) * size)
        };
        // keep the whole range inside one half / below 2^52
        let start = if virt {
            let lim = if start >> 63 == 1 { u64::MAX } else { 0x0000_7fff_ffff_ffff };
            let need = (cnt + 1) * size;
            if lim - start < need { lim - need } else { start }
        } else {
            start
        };
        range_events(out, virt, s, start, cnt, true);
    }
    for _ in 0..n / 100 {
        let s = r.below(3);
        let virt = r.chance(1, 2);
        if virt {
            let upper = r.chance(1, 2);
            let x = r.below(1 << 47);
            let y = r.below(1 << 47);
            let (lo, hi) = (x.min(y), x.max(y));
            let base = if upper { 0xffff_8000_0000_0000u64 } else { 0 };
            let size = 1u64 << (12 + 9 * s);
            range_events(out, true, s, base + lo, (hi - lo) / size, false);
        } else {
            let x = r.below(1 << 52);
            let y = r.below(1 << 52);
            let (lo, hi) = (x.min(y), x.max(y));
            let size = 1u64 << (12 + 9 * s);
            range_events(out, false, s, lo, (hi - lo) / size, false);
        }
    }
}

// ------------------------------------------------------------------------------------------
// C20 (pure part): recursive table pages through the cfg-gated accessor

pub fn run_c20_pure(out: &mut Out, seed: u64, n: u64) {
    use x86_64::structures::paging::mapper::verif_recursive_pages;
    let lat = lattice_canon();
    let mut r = Rng::new(seed);
    let emit = |out: &mut Out, rix: u16, a: u64| {
        let ri = PageTableIndex::new(rix);
        let p4k: Page<Size4KiB> = mkpage(page_start(0, a));
        let p2m: Page<Size2MiB> = mkpage(page_start(1, a));
        let p1g: Page<Size1GiB> = mkpage(page_start(2, a));
        let t = catch(|| verif_recursive_pages(p4k, p2m, p1g, ri));
        match t {
            Some(t) => {
                let ws: Vec<u64> = t.iter().map(|p| p.start_address().as_u64()).collect();
                out.emit(Ev::new("rec_pages").w("a", a).n("r", rix as i64).str("k", "ok").words("pages", &ws));
            }
            None => out.emit(Ev::new("rec_pages").w("a", a).n("r", rix as i64).str("k", "panic").words("pages", &[])),
        }
    };
    for rix in 0..512u16 {
        for j in 0..6 {
            let a = lat[(rix as usize * 11 + j * 37 + seed as usize) % lat.len()];
            emit(out, rix, a);
        }
    }
    for _ in 0..n / 2 {
        let rix = r.below(512) as u16;
        let a = canon(any64(&mut r, &lat));
        emit(out, rix, a);
    }
}
