//! Ring-3 trap-and-emulate CPU: privileged instructions executed by the crate's wrappers raise
//! #GP (SIGSEGV, si_code SI_KERNEL) or #UD (SIGILL) with RIP at the instruction.  The handler
//! decodes the instruction, applies its architectural effect to an emulated register file,
//! appends a record to a pre-allocated log, and resumes after the instruction.
//!
//! The emulator is deliberately dumb: it knows instruction *encodings* and where operands live;
//! what a wrapper ought to do with them is decided by Trace_Cpu.tla.

use crate::trap;
use std::sync::atomic::{AtomicU64, AtomicUsize, Ordering};

// mnemonic codes
pub const M_CLI: u64 = 1;
pub const M_STI: u64 = 2;
pub const M_HLT: u64 = 3;
pub const M_IN: u64 = 4; // a = port (dx), b = width (1,2,4), c = value supplied
pub const M_OUT: u64 = 5; // a = port, b = width, c = value (masked to width), d = full rax
pub const M_MOV_FROM_CR: u64 = 6; // a = cr number, c = value returned
pub const M_MOV_TO_CR: u64 = 7; // a = cr number, c = value
pub const M_MOV_FROM_DR: u64 = 8;
pub const M_MOV_TO_DR: u64 = 9;
pub const M_RDMSR: u64 = 10; // a = ecx, c = value returned, d = full rcx
pub const M_WRMSR: u64 = 11; // a = ecx, c = edx:eax, d = full rcx
pub const M_LGDT: u64 = 12; // a = operand address, b = limit, c = base
pub const M_LIDT: u64 = 13;
pub const M_LTR: u64 = 14; // a = selector
pub const M_INVLPG: u64 = 15; // a = address
pub const M_INVPCID: u64 = 16; // a = kind (register), b = descriptor low qword, c = descriptor high qword
pub const M_INVLPGB: u64 = 17; // a = rax, b = ecx, c = edx
pub const M_TLBSYNC: u64 = 18;
pub const M_XSETBV: u64 = 19; // a = ecx, c = edx:eax
pub const M_SWAPGS: u64 = 20;
pub const M_MOV_TO_SREG: u64 = 21; // a = sreg number (0 es,1 cs,2 ss,3 ds,4 fs,5 gs), c = selector
pub const M_RETFQ: u64 = 22; // a = new rip, c = new cs
pub const M_UNKNOWN: u64 = 99; // a..d = first instruction bytes

pub const MAXLOG: usize = 4096;
#[allow(clippy::declare_interior_mutable_const)]
const Z: AtomicU64 = AtomicU64::new(0);
pub static LOG: [[AtomicU64; 6]; MAXLOG] = [const { [Z; 6] }; MAXLOG];
pub static NLOG: AtomicUsize = AtomicUsize::new(0);

// emulated register file
pub static CR: [AtomicU64; 16] = [Z; 16];
pub static DR: [AtomicU64; 8] = [Z; 8];
pub const NMSR: usize = 64;
pub static MSR_IDX: [AtomicU64; NMSR] = [Z; NMSR];
pub static MSR_VAL: [AtomicU64; NMSR] = [Z; NMSR];
pub static NMSRS: AtomicUsize = AtomicUsize::new(0);
pub static XCR0: AtomicU64 = AtomicU64::new(0);
pub static IF: AtomicU64 = AtomicU64::new(1);
/// window probe (C17): when non-zero, the address of a plain memory cell that the emulated
/// "interrupt handler" samples and overwrites at every cli / sti
pub static PROBE: AtomicU64 = AtomicU64::new(0);
pub static PROBE_SEEN: [AtomicU64; 2] = [Z; 2];
pub const PROBE_CLI: u64 = 0xc11;
pub const PROBE_STI: u64 = 0x571;
fn probe(k: usize, mark: u64) {
    let p = PROBE.load(Ordering::Relaxed) as *mut u64;
    if !p.is_null() {
        unsafe {
            PROBE_SEEN[k].store(std::ptr::read_volatile(p), Ordering::Relaxed);
            std::ptr::write_volatile(p, mark);
        }
    }
}
pub static SREG: [AtomicU64; 6] = [Z; 6];
pub static TR: AtomicU64 = AtomicU64::new(0);
pub static GDTR: [AtomicU64; 2] = [Z; 2];
/// non-zero while a driver guarantees that GDTR describes readable and writable memory
pub static LTR_MARKS_BUSY: AtomicU64 = AtomicU64::new(0);
pub static IDTR: [AtomicU64; 2] = [Z; 2];
pub static PORT_SEQ: AtomicU64 = AtomicU64::new(0);
/// msr value used for indices that were never written (so that reads are distinguishable)
pub static MSR_DEFAULT_SALT: AtomicU64 = AtomicU64::new(0x5a5a_0000_1234_0000);

pub fn msr_get(idx: u64) -> u64 {
    let n = NMSRS.load(Ordering::Relaxed);
    for i in 0..n {
        if MSR_IDX[i].load(Ordering::Relaxed) == idx {
            return MSR_VAL[i].load(Ordering::Relaxed);
        }
    }
    MSR_DEFAULT_SALT.load(Ordering::Relaxed) ^ idx.rotate_left(17)
}
pub fn msr_set(idx: u64, v: u64) {
    let n = NMSRS.load(Ordering::Relaxed);
    for i in 0..n {
        if MSR_IDX[i].load(Ordering::Relaxed) == idx {
            MSR_VAL[i].store(v, Ordering::Relaxed);
            return;
        }
    }
    if n < NMSR {
        MSR_IDX[n].store(idx, Ordering::Relaxed);
        MSR_VAL[n].store(v, Ordering::Relaxed);
        NMSRS.store(n + 1, Ordering::Relaxed);
    }
}
pub fn msr_clear() {
    NMSRS.store(0, Ordering::Relaxed);
}

/// value a device returns for a read: distinguishable per (port, width, sequence number)
pub fn device_value(port: u64, width: u64, seq: u64) -> u64 {
    let x = (port.wrapping_mul(0x9e37_79b9) ^ (width << 29) ^ seq.wrapping_mul(0x85eb_ca6b)).wrapping_add(0x0123_4567_89ab_cdef);
    let x = x ^ (x >> 15);
    match width {
        1 => x & 0xff,
        2 => x & 0xffff,
        _ => x & 0xffff_ffff,
    }
}

fn push(m: u64, a: u64, b: u64, c: u64, d: u64, rip: u64) {
    let n = NLOG.fetch_add(1, Ordering::Relaxed);
    if n < MAXLOG {
        LOG[n][0].store(m, Ordering::Relaxed);
        LOG[n][1].store(a, Ordering::Relaxed);
        LOG[n][2].store(b, Ordering::Relaxed);
        LOG[n][3].store(c, Ordering::Relaxed);
        LOG[n][4].store(d, Ordering::Relaxed);
        LOG[n][5].store(rip, Ordering::Relaxed);
    }
}

#[derive(Clone, Debug)]
pub struct Instr {
    pub m: u64,
    pub a: u64,
    pub b: u64,
    pub c: u64,
    pub d: u64,
    pub rip: u64,
}

pub fn drain() -> Vec<Instr> {
    let n = NLOG.swap(0, Ordering::Relaxed).min(MAXLOG);
    (0..n)
        .map(|i| Instr {
            m: LOG[i][0].load(Ordering::Relaxed),
            a: LOG[i][1].load(Ordering::Relaxed),
            b: LOG[i][2].load(Ordering::Relaxed),
            c: LOG[i][3].load(Ordering::Relaxed),
            d: LOG[i][4].load(Ordering::Relaxed),
            rip: LOG[i][5].load(Ordering::Relaxed),
        })
        .collect()
}

pub fn mnemonic(m: u64) -> &'static str {
    match m {
        M_CLI => "cli",
        M_STI => "sti",
        M_HLT => "hlt",
        M_IN => "in",
        M_OUT => "out",
        M_MOV_FROM_CR => "mov_from_cr",
        M_MOV_TO_CR => "mov_to_cr",
        M_MOV_FROM_DR => "mov_from_dr",
        M_MOV_TO_DR => "mov_to_dr",
        M_RDMSR => "rdmsr",
        M_WRMSR => "wrmsr",
        M_LGDT => "lgdt",
        M_LIDT => "lidt",
        M_LTR => "ltr",
        M_INVLPG => "invlpg",
        M_INVPCID => "invpcid",
        M_INVLPGB => "invlpgb",
        M_TLBSYNC => "tlbsync",
        M_XSETBV => "xsetbv",
        M_SWAPGS => "swapgs",
        M_MOV_TO_SREG => "mov_to_sreg",
        M_RETFQ => "retfq",
        _ => "unknown",
    }
}

pub fn instrs_json(v: &[Instr]) -> String {
    let mut s = String::from("[");
    for (i, x) in v.iter().enumerate() {
        if i > 0 {
            s.push(',');
        }
        s.push_str(&format!(
            "{{\"m\":\"{}\",\"a\":{},\"b\":{},\"c\":{},\"d\":{},\"rip\":{}}}",
            mnemonic(x.m),
            crate::out::limbs(x.a),
            crate::out::limbs(x.b),
            crate::out::limbs(x.c),
            crate::out::limbs(x.d),
            crate::out::limbs(x.rip)
        ));
    }
    s.push(']');
    s
}

// general-purpose register number -> index into gregs
const GREG: [i32; 16] = [
    libc::REG_RAX,
    libc::REG_RCX,
    libc::REG_RDX,
    libc::REG_RBX,
    libc::REG_RSP,
    libc::REG_RBP,
    libc::REG_RSI,
    libc::REG_RDI,
    libc::REG_R8,
    libc::REG_R9,
    libc::REG_R10,
    libc::REG_R11,
    libc::REG_R12,
    libc::REG_R13,
    libc::REG_R14,
    libc::REG_R15,
];

unsafe fn greg(uc: *mut libc::ucontext_t, n: usize) -> u64 {
    (*uc).uc_mcontext.gregs[GREG[n] as usize] as u64
}
unsafe fn set_greg(uc: *mut libc::ucontext_t, n: usize, v: u64) {
    (*uc).uc_mcontext.gregs[GREG[n] as usize] = v as i64;
}

/// effective address of a ModRM memory operand; returns (ea, bytes consumed after the ModRM byte incl. it)
unsafe fn modrm_ea(p: *const u8, rex: u8, uc: *mut libc::ucontext_t, next_rip_base: u64, prefix_len: usize) -> Option<(u64, usize)> {
    // an address-size prefix (0x67) makes the processor compute the effective address in 32 bits
    let (ea, len) = modrm_ea64(p, rex, uc, next_rip_base, prefix_len)?;
    Some((if ADDR32.load(Ordering::Relaxed) != 0 { ea & 0xffff_ffff } else { ea }, len))
}

/// set by `emulate` while it decodes an instruction that carries an address-size prefix
static ADDR32: AtomicU64 = AtomicU64::new(0);

unsafe fn modrm_ea64(p: *const u8, rex: u8, uc: *mut libc::ucontext_t, next_rip_base: u64, prefix_len: usize) -> Option<(u64, usize)> {
    let modrm = *p;
    let md = modrm >> 6;
    let rm = (modrm & 7) as usize;
    if md == 3 {
        return None;
    }
    let mut len = 1usize;
    let mut ea: u64;
    if rm == 4 {
        let sib = *p.add(1);
        len += 1;
        let scale = 1u64 << (sib >> 6);
        let idx = (((sib >> 3) & 7) as usize) | (((rex >> 1) & 1) as usize) << 3;
        let base = ((sib & 7) as usize) | ((rex & 1) as usize) << 3;
        ea = 0;
        if idx != 4 {
            ea = ea.wrapping_add(greg(uc, idx).wrapping_mul(scale));
        }
        if (sib & 7) == 5 && md == 0 {
            let d = core::ptr::read_unaligned(p.add(len) as *const i32) as i64 as u64;
            len += 4;
            ea = ea.wrapping_add(d);
        } else {
            ea = ea.wrapping_add(greg(uc, base));
        }
    } else if rm == 5 && md == 0 {
        // RIP-relative: relative to the end of the instruction
        let d = core::ptr::read_unaligned(p.add(1) as *const i32) as i64 as u64;
        len += 4;
        ea = next_rip_base.wrapping_add((prefix_len + len) as u64).wrapping_add(d);
        return Some((ea, len));
    } else {
        ea = greg(uc, rm | ((rex & 1) as usize) << 3);
    }
    if md == 1 {
        let d = *(p.add(len) as *const i8) as i64 as u64;
        len += 1;
        ea = ea.wrapping_add(d);
    } else if md == 2 {
        let d = core::ptr::read_unaligned(p.add(len) as *const i32) as i64 as u64;
        len += 4;
        ea = ea.wrapping_add(d);
    }
    Some((ea, len))
}

/// called from the signal handler for #GP / #UD
pub unsafe fn emulate(_sig: i32, _code: i32, _addr: u64, uc: *mut libc::ucontext_t) -> bool {
    let rip = (*uc).uc_mcontext.gregs[libc::REG_RIP as usize] as u64;
    let p = rip as *const u8;
    // prefixes
    let mut i = 0usize;
    let mut opsize = false;
    let mut rex: u8 = 0;
    ADDR32.store(0, Ordering::Relaxed);
    loop {
        let b = *p.add(i);
        match b {
            0x66 => {
                opsize = true;
                i += 1;
            }
            0x67 => {
                ADDR32.store(1, Ordering::Relaxed);
                i += 1;
            }
            0xf2 | 0xf3 | 0x2e | 0x36 | 0x3e | 0x26 | 0x64 | 0x65 => i += 1,
            0x40..=0x4f => {
                rex = b;
                i += 1;
                break;
            }
            _ => break,
        }
        if i > 6 {
            break;
        }
    }
    let op = *p.add(i);
    let q = p.add(i + 1);
    let rax = greg(uc, 0);
    let rcx = greg(uc, 1);
    let rdx = greg(uc, 2);
    let len: usize;
    match op {
        0xfa => {
            IF.store(0, Ordering::Relaxed);
            probe(0, PROBE_CLI);
            push(M_CLI, 0, 0, 0, 0, rip);
            len = i + 1;
        }
        0xfb => {
            IF.store(1, Ordering::Relaxed);
            probe(1, PROBE_STI);
            push(M_STI, 0, 0, 0, 0, rip);
            len = i + 1;
        }
        0xf4 => {
            push(M_HLT, IF.load(Ordering::Relaxed), 0, 0, 0, rip);
            len = i + 1;
        }
        0xec | 0xed => {
            let width = if op == 0xec { 1 } else if opsize { 2 } else { 4 };
            let port = rdx & 0xffff;
            let seq = PORT_SEQ.fetch_add(1, Ordering::Relaxed);
            let v = device_value(port, width, seq);
            let new = match width {
                1 => (rax & !0xff) | v,
                2 => (rax & !0xffff) | v,
                _ => v, // 32-bit writes zero-extend
            };
            set_greg(uc, 0, new);
            push(M_IN, port, width, v, rdx, rip);
            len = i + 1;
        }
        0xee | 0xef => {
            let width = if op == 0xee { 1 } else if opsize { 2 } else { 4 };
            let port = rdx & 0xffff;
            let v = match width {
                1 => rax & 0xff,
                2 => rax & 0xffff,
                _ => rax & 0xffff_ffff,
            };
            push(M_OUT, port, width, v, rdx, rip);
            len = i + 1;
        }
        0xcb => {
            // retfq: pop rip, pop cs
            let sp = greg(uc, 4);
            let new_rip = *(sp as *const u64);
            let new_cs = *((sp + 8) as *const u64);
            SREG[1].store(new_cs & 0xffff, Ordering::Relaxed);
            push(M_RETFQ, new_rip, rex as u64, new_cs, 0, rip);
            set_greg(uc, 4, sp + 16);
            (*uc).uc_mcontext.gregs[libc::REG_RIP as usize] = new_rip as i64;
            return true;
        }
        0x8e => {
            let modrm = *q;
            let sreg = ((modrm >> 3) & 7) as usize;
            let v;
            let l;
            if modrm >> 6 == 3 {
                v = greg(uc, ((modrm & 7) as usize) | ((rex & 1) as usize) << 3) & 0xffff;
                l = 1;
            } else {
                match modrm_ea(q, rex, uc, rip, i + 1) {
                    Some((ea, ml)) => {
                        v = core::ptr::read_unaligned(ea as *const u16) as u64;
                        l = ml;
                    }
                    None => return unknown(p, rip),
                }
            }
            if sreg < 6 {
                SREG[sreg].store(v, Ordering::Relaxed);
            }
            push(M_MOV_TO_SREG, sreg as u64, 0, v, 0, rip);
            len = i + 1 + l;
        }
        0x0f => {
            let op2 = *q;
            let r = q.add(1);
            match op2 {
                0x20 | 0x21 | 0x22 | 0x23 => {
                    let modrm = *r;
                    let n = (((modrm >> 3) & 7) as usize) | (((rex >> 2) & 1) as usize) << 3;
                    let g = ((modrm & 7) as usize) | ((rex & 1) as usize) << 3;
                    match op2 {
                        0x20 => {
                            let v = CR[n].load(Ordering::Relaxed);
                            set_greg(uc, g, v);
                            push(M_MOV_FROM_CR, n as u64, g as u64, v, 0, rip);
                        }
                        0x22 => {
                            let v = greg(uc, g);
                            CR[n].store(v, Ordering::Relaxed);
                            push(M_MOV_TO_CR, n as u64, g as u64, v, 0, rip);
                        }
                        0x21 => {
                            let v = DR[n & 7].load(Ordering::Relaxed);
                            set_greg(uc, g, v);
                            push(M_MOV_FROM_DR, n as u64, g as u64, v, 0, rip);
                        }
                        _ => {
                            let v = greg(uc, g);
                            DR[n & 7].store(v, Ordering::Relaxed);
                            push(M_MOV_TO_DR, n as u64, g as u64, v, 0, rip);
                        }
                    }
                    len = i + 3;
                }
                0x32 => {
                    let idx = rcx & 0xffff_ffff;
                    let v = msr_get(idx);
                    set_greg(uc, 0, v & 0xffff_ffff);
                    set_greg(uc, 2, v >> 32);
                    push(M_RDMSR, idx, 0, v, rcx, rip);
                    len = i + 2;
                }
                0x30 => {
                    let idx = rcx & 0xffff_ffff;
                    let v = (rdx << 32) | (rax & 0xffff_ffff);
                    msr_set(idx, v);
                    push(M_WRMSR, idx, rax, v, rcx, rip);
                    len = i + 2;
                }
                0x00 => {
                    let modrm = *r;
                    if (modrm >> 3) & 7 == 3 && modrm >> 6 == 3 {
                        let v = greg(uc, ((modrm & 7) as usize) | ((rex & 1) as usize) << 3) & 0xffff;
                        TR.store(v, Ordering::Relaxed);
                        // ltr marks the TSS descriptor busy in the GDT (type 9 -> 11); done only when a driver
                        // vouches that the emulated GDTR points to real memory
                        let (mut lo, mut hi) = (0u64, 0u64);
                        if LTR_MARKS_BUSY.load(Ordering::Relaxed) != 0 && (v | 7) + 8 <= GDTR[1].load(Ordering::Relaxed) {
                            let d = (GDTR[0].load(Ordering::Relaxed) + (v & !7)) as *mut u64;
                            lo = core::ptr::read_volatile(d);
                            hi = core::ptr::read_volatile(d.add(1));
                            if (lo >> 40) & 0xf == 9 {
                                core::ptr::write_volatile(d, lo | (1 << 41));
                            }
                        }
                        push(M_LTR, v, lo, hi, 0, rip);
                        len = i + 3;
                    } else {
                        return unknown(p, rip);
                    }
                }
                0x01 => {
                    let modrm = *r;
                    match modrm {
                        0xd1 => {
                            let v = (rdx << 32) | (rax & 0xffff_ffff);
                            XCR0.store(v, Ordering::Relaxed);
                            push(M_XSETBV, rcx & 0xffff_ffff, rax, v, rdx, rip);
                            len = i + 3;
                        }
                        0xf8 => {
                            push(M_SWAPGS, 0, 0, 0, 0, rip);
                            len = i + 3;
                        }
                        0xfe => {
                            push(M_INVLPGB, if ADDR32.load(Ordering::Relaxed) != 0 { rax & 0xffff_ffff } else { rax }, rcx & 0xffff_ffff, rdx & 0xffff_ffff, rcx, rip);
                            len = i + 3;
                        }
                        0xff => {
                            push(M_TLBSYNC, 0, 0, 0, 0, rip);
                            len = i + 3;
                        }
                        _ => {
                            let reg = (modrm >> 3) & 7;
                            match modrm_ea(r, rex, uc, rip, i + 2) {
                                Some((ea, ml)) => {
                                    match reg {
                                        2 | 3 => {
                                            let limit = core::ptr::read_unaligned(ea as *const u16) as u64;
                                            let base = core::ptr::read_unaligned((ea + 2) as *const u64);
                                            if reg == 2 {
                                                GDTR[0].store(base, Ordering::Relaxed);
                                                GDTR[1].store(limit, Ordering::Relaxed);
                                                push(M_LGDT, ea, limit, base, 0, rip);
                                            } else {
                                                IDTR[0].store(base, Ordering::Relaxed);
                                                IDTR[1].store(limit, Ordering::Relaxed);
                                                push(M_LIDT, ea, limit, base, 0, rip);
                                            }
                                        }
                                        7 => push(M_INVLPG, ea, 0, 0, 0, rip),
                                        _ => return unknown(p, rip),
                                    }
                                    len = i + 2 + ml;
                                }
                                None => return unknown(p, rip),
                            }
                        }
                    }
                }
                0x38 => {
                    // 66 0f 38 82 /r : invpcid r64, m128
                    if *r == 0x82 && opsize {
                        let m = r.add(1);
                        let modrm = *m;
                        let g = (((modrm >> 3) & 7) as usize) | (((rex >> 2) & 1) as usize) << 3;
                        match modrm_ea(m, rex, uc, rip, i + 3) {
                            Some((ea, ml)) => {
                                let lo = core::ptr::read_unaligned(ea as *const u64);
                                let hi = core::ptr::read_unaligned((ea + 8) as *const u64);
                                push(M_INVPCID, greg(uc, g), lo, hi, 0, rip);
                                len = i + 3 + ml;
                            }
                            None => return unknown(p, rip),
                        }
                    } else {
                        return unknown(p, rip);
                    }
                }
                _ => return unknown(p, rip),
            }
        }
        _ => return unknown(p, rip),
    }
    (*uc).uc_mcontext.gregs[libc::REG_RIP as usize] = (rip + len as u64) as i64;
    true
}

unsafe fn unknown(p: *const u8, rip: u64) -> bool {
    // never skipped silently: recorded, and the fault is then fatal (tool error)
    let b = core::ptr::read_unaligned(p as *const u64);
    push(M_UNKNOWN, b, 0, 0, 0, rip);
    false
}

pub fn install() {
    trap::EMU_HOOK.store(emulate as usize, Ordering::SeqCst);
    trap::MODE.fetch_or(trap::EMU, Ordering::SeqCst);
}

pub fn reset_regs() {
    for c in CR.iter() {
        c.store(0, Ordering::Relaxed);
    }
    for d in DR.iter() {
        d.store(0, Ordering::Relaxed);
    }
    msr_clear();
    XCR0.store(0, Ordering::Relaxed);
    IF.store(1, Ordering::Relaxed);
    for s in SREG.iter() {
        s.store(0, Ordering::Relaxed);
    }
    TR.store(0, Ordering::Relaxed);
    NLOG.store(0, Ordering::Relaxed);
}
