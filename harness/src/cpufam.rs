//! Drivers for the instruction wrappers that run on the trap-and-emulate CPU:
//! I/O ports (C18), interrupt flag (C17), TLB flush operations (C11).

use crate::cpu;
use crate::gen::*;
use crate::out::*;
use std::sync::atomic::Ordering;
use x86_64::instructions::port::{Port, PortReadOnly, PortWriteOnly};

fn instrs() -> String {
    cpu::instrs_json(&cpu::drain())
}

// ------------------------------------------------------------------------------------------
// C18: ports.  All 65536 port numbers x 3 widths x (Port read, Port write, PortReadOnly read,
// PortWriteOnly write), 256 ports per event.

struct Blk {
    ports: Vec<i64>,
    widths: Vec<i64>,
    counts: Vec<i64>,
    kinds: Vec<i64>,
    vals: Vec<u64>,
    rets: Vec<u64>,
}

fn blk_record(b: &mut Blk, ret: u64) {
    let v = cpu::drain();
    b.counts.push(v.len() as i64);
    match v.first() {
        Some(x) => {
            b.ports.push(x.a as i64);
            b.widths.push(x.b as i64);
            b.kinds.push(x.m as i64);
            b.vals.push(x.c);
        }
        None => {
            b.ports.push(-1);
            b.widths.push(-1);
            b.kinds.push(-1);
            b.vals.push(0);
        }
    }
    b.rets.push(ret);
}

fn wval(w: u32, port: u32, seed: u64) -> u64 {
    let lat: [u64; 12] = [0, 1, 0x7f, 0x80, 0xff, 0x100, 0x7fff, 0x8000, 0xffff, 0x1_0000, 0x7fff_ffff, 0xffff_ffff];
    let x = match w {
        1 => (port as u64 + seed) & 0xff, // all 256 byte values within every block
        _ => lat[((port as u64 + seed) % 12) as usize] ^ if port % 5 == 0 { (port as u64).wrapping_mul(0x9e37_79b9) } else { 0 },
    };
    match w {
        1 => x & 0xff,
        2 => x & 0xffff,
        _ => x & 0xffff_ffff,
    }
}

/// two reads of one port object in one (inlinable) function: two device accesses
#[inline(never)]
unsafe fn two_reads(p: u16) -> (u8, u8) {
    let mut port = Port::<u8>::new(p);
    let a = unsafe { port.read() };
    let b = unsafe { port.read() };
    (a, b)
}
/// a read whose value is not used still reaches the device
#[inline(never)]
unsafe fn discarded_read(p: u16) {
    let mut port = PortReadOnly::<u32>::new(p);
    let _ = unsafe { port.read() };
}

pub fn run_ports(out: &mut Out, seed: u64, _n: u64) {
    cpu::reset_regs();
    for w in [1u32, 2, 4] {
        for (kind, write) in [("rw", false), ("rw", true), ("ro", false), ("wo", true)] {
            for base in (0..65536u32).step_by(256) {
                let mut b = Blk { ports: vec![], widths: vec![], counts: vec![], kinds: vec![], vals: vec![], rets: vec![] };
                let mut given: Vec<u64> = Vec::new();
                for d in 0..256u32 {
                    let p = (base + d) as u16;
                    let v = wval(w, base + d, seed);
                    given.push(v);
                    // a panic of the code under test is data (count -2), never a harness failure
                    let r = catch(|| unsafe {
                        match (w, kind, write) {
                            (1, "rw", false) => Port::<u8>::new(p).read() as u64,
                            (2, "rw", false) => Port::<u16>::new(p).read() as u64,
                            (4, "rw", false) => Port::<u32>::new(p).read() as u64,
                            (1, "ro", false) => PortReadOnly::<u8>::new(p).read() as u64,
                            (2, "ro", false) => PortReadOnly::<u16>::new(p).read() as u64,
                            (4, "ro", false) => PortReadOnly::<u32>::new(p).read() as u64,
                            (1, "rw", true) => { Port::<u8>::new(p).write(v as u8); 0 }
                            (2, "rw", true) => { Port::<u16>::new(p).write(v as u16); 0 }
                            (4, "rw", true) => { Port::<u32>::new(p).write(v as u32); 0 }
                            (1, "wo", true) => { PortWriteOnly::<u8>::new(p).write(v as u8); 0 }
                            (2, "wo", true) => { PortWriteOnly::<u16>::new(p).write(v as u16); 0 }
                            (4, "wo", true) => { PortWriteOnly::<u32>::new(p).write(v as u32); 0 }
                            _ => unreachable!(),
                        }
                    });
                    match r {
                        Some(ret) => blk_record(&mut b, ret),
                        None => {
                            blk_record(&mut b, 0);
                            *b.counts.last_mut().unwrap() = -2;
                        }
                    }
                }
                out.emit(
                    Ev::new("port_block")
                        .str("kind", kind)
                        .n("write", write as i64)
                        .n("w", w as i64)
                        .n("base", base as i64)
                        .ints("ports", &b.ports)
                        .ints("widths", &b.widths)
                        .ints("counts", &b.counts)
                        .ints("mn", &b.kinds)
                        .words("vals", &b.vals)
                        .words("rets", &b.rets)
                        .words("given", &given),
                );
            }
        }
    }
    // equality and clones
    let mut r = Rng::new(seed);
    for _ in 0..2000 {
        let a = r.below(65536) as u16;
        let b = if r.chance(1, 3) { a } else { r.below(65536) as u16 };
        let (pa, pb) = (Port::<u16>::new(a), Port::<u16>::new(b));
        let (ra, rb) = (PortReadOnly::<u8>::new(a), PortReadOnly::<u8>::new(b));
        let (wa, wb) = (PortWriteOnly::<u32>::new(a), PortWriteOnly::<u32>::new(b));
        let mut c = pa.clone();
        let cv = unsafe { c.read() };
        let ci = cpu::drain();
        // clone_from must make the destination refer to the source's port
        let mut cf = Port::<u16>::new(a);
        cf.clone_from(&pb);
        let cf_eq = cf == pb;
        let _ = unsafe { cf.read() };
        let cfi = cpu::drain();
        // repeated and discarded reads are separate device accesses
        let (r1, r2) = unsafe { two_reads(a) };
        let multi = cpu::drain();
        unsafe { discarded_read(b) };
        let disc = cpu::drain();
        out.emit(
            Ev::new("port_multi")
                .n("p", a as i64)
                .n("q", b as i64)
                .n("cf_eq", cf_eq as i64)
                .n("cf_port", cfi.first().map(|x| x.a as i64).unwrap_or(-1))
                .n("n2", multi.len() as i64)
                .ints("ports2", &multi.iter().map(|x| x.a as i64).collect::<Vec<_>>())
                .words("vals2", &multi.iter().map(|x| x.c).collect::<Vec<_>>())
                .words("rets2", &[r1 as u64, r2 as u64])
                .n("n1", disc.len() as i64)
                .n("port1", disc.first().map(|x| x.a as i64).unwrap_or(-1)),
        );
        out.emit(
            Ev::new("port_eq")
                .n("p", a as i64)
                .n("q", b as i64)
                .ints("eq", &[(pa == pb) as i64, (ra == rb) as i64, (wa == wb) as i64, (pa == pa.clone()) as i64])
                .n("clone_port", ci.first().map(|x| x.a as i64).unwrap_or(-1))
                .n("clone_ok", (ci.len() == 1 && ci[0].c == cv as u64) as i64),
        );
    }
}

// ------------------------------------------------------------------------------------------
// C17: interrupt flag

use x86_64::instructions::interrupts;
use x86_64::registers::rflags::VERIF_IF_OVERLAY;

fn set_if(v: u64) {
    cpu::IF.store(v, Ordering::SeqCst);
}
fn sync_overlay() {
    // pushfq cannot be trapped: rflags::read_raw overlays the emulated flag (hook H2)
    VERIF_IF_OVERLAY.store(if cpu::IF.load(Ordering::SeqCst) == 1 { 2 } else { 1 }, Ordering::SeqCst);
}

/// program statements
#[derive(Clone, Debug)]
pub enum St {
    Enable,
    Disable,
    Are,
    Hlt,
    /// without_interrupts(body)
    Wi(Vec<St>),
    /// enable(); inner...; disable()   (leaves the flag clear as a body found it)
    Ed(Vec<St>),
}

thread_local! {
    static IOUT: std::cell::RefCell<Vec<String>> = std::cell::RefCell::new(Vec::new());
    static NEXT_VAL: std::cell::Cell<u64> = std::cell::Cell::new(1000);
}

fn emit_i(e: Ev) {
    IOUT.with(|o| o.borrow_mut().push(e.finish()));
}

fn run_st(s: &St) {
    match s {
        St::Enable => {
            interrupts::enable();
            sync_overlay();
            emit_i(Ev::new("enable").raw("instrs", &instrs()).n("if", cpu::IF.load(Ordering::SeqCst) as i64));
        }
        St::Disable => {
            interrupts::disable();
            sync_overlay();
            emit_i(Ev::new("disable").raw("instrs", &instrs()).n("if", cpu::IF.load(Ordering::SeqCst) as i64));
        }
        St::Are => {
            sync_overlay();
            let r = interrupts::are_enabled();
            emit_i(Ev::new("are_enabled").n("ret", r as i64).raw("instrs", &instrs()).n("if", cpu::IF.load(Ordering::SeqCst) as i64));
        }
        St::Hlt => {
            interrupts::enable_and_hlt();
            sync_overlay();
            emit_i(Ev::new("enable_and_hlt").raw("instrs", &instrs()).n("if", cpu::IF.load(Ordering::SeqCst) as i64));
        }
        St::Ed(inner) => {
            run_st(&St::Enable);
            for x in inner {
                run_st(x);
            }
            run_st(&St::Disable);
        }
        St::Wi(body) => {
            let expect = NEXT_VAL.with(|v| {
                let x = v.get();
                v.set(x.wrapping_mul(6364136223846793005).wrapping_add(1442695040888963407));
                x
            });
            sync_overlay();
            emit_i(Ev::new("wi_enter").raw("instrs", &instrs()).n("if", cpu::IF.load(Ordering::SeqCst) as i64));
            let mut calls = 0u32;
            let ret = interrupts::without_interrupts(|| {
                calls += 1;
                sync_overlay();
                emit_i(Ev::new("body").raw("instrs", &instrs()).n("if", cpu::IF.load(Ordering::SeqCst) as i64));
                for x in body {
                    run_st(x);
                }
                sync_overlay();
                emit_i(Ev::new("body_end").raw("instrs", &instrs()).n("if", cpu::IF.load(Ordering::SeqCst) as i64));
                expect
            });
            sync_overlay();
            emit_i(
                Ev::new("wi_exit")
                    .raw("instrs", &instrs())
                    .n("if", cpu::IF.load(Ordering::SeqCst) as i64)
                    .w("ret", ret)
                    .w("expect", expect)
                    .n("calls", calls as i64),
            );
        }
    }
}

/// all bodies (statement lists that leave IF clear) with at most `budget` nodes
fn bodies(budget: usize) -> Vec<Vec<St>> {
    let mut out = vec![vec![]];
    if budget == 0 {
        return out;
    }
    for first_cost in 1..=budget {
        for first in stmts(first_cost, true) {
            for rest in bodies(budget - first_cost) {
                let mut v = vec![first.clone()];
                v.extend(rest);
                out.push(v);
            }
        }
    }
    out
}
/// statements costing exactly `cost` nodes; in_body: the statement must leave IF as it found it (clear)
fn stmts(cost: usize, in_body: bool) -> Vec<St> {
    let mut v = Vec::new();
    if cost == 1 {
        v.push(St::Disable);
        v.push(St::Are);
        if !in_body {
            v.push(St::Enable);
            v.push(St::Hlt);
        }
    }
    for b in bodies(cost - 1) {
        if node_count(&b) == cost - 1 {
            v.push(St::Wi(b));
        }
    }
    if cost >= 2 {
        // enable; inner (any top-level statements that end with IF set or clear); disable
        for b in progs(cost - 2) {
            if node_count(&b) == cost - 2 {
                v.push(St::Ed(b));
            }
        }
    }
    v
}
fn node_count(v: &[St]) -> usize {
    v.iter()
        .map(|s| match s {
            St::Wi(b) => 1 + node_count(b),
            St::Ed(b) => 2 + node_count(b),
            _ => 1,
        })
        .sum()
}
/// all top-level programs with at most `budget` nodes
fn progs(budget: usize) -> Vec<Vec<St>> {
    let mut out = vec![vec![]];
    if budget == 0 {
        return out;
    }
    for first_cost in 1..=budget {
        for first in stmts(first_cost, false) {
            for rest in progs(budget - first_cost) {
                let mut v = vec![first.clone()];
                v.extend(rest);
                out.push(v);
            }
        }
    }
    out
}

fn random_prog(r: &mut Rng, depth: u32, in_body: bool, len: usize) -> Vec<St> {
    let mut v = Vec::new();
    for _ in 0..len {
        let c = r.below(if in_body { 5 } else { 7 });
        v.push(match c {
            0 => St::Disable,
            1 => St::Are,
            2 | 3 if depth > 0 => {
                let k = 1 + r.below(3) as usize;
                St::Wi(random_prog(r, depth - 1, true, k))
            }
            4 if depth > 0 => {
                let k = r.below(3) as usize;
                St::Ed(random_prog(r, depth - 1, false, k))
            }
            5 => St::Enable,
            6 => St::Hlt,
            _ => St::Are,
        });
    }
    v
}

// The closure must execute *inside* the window: its loads come after the cli, its stores before
// the sti (the asm blocks are compiler barriers).  A plain static cell is written before the call,
// read and written by the closure, read and written after the call; the emulated interrupt
// handler samples and overwrites it at the cli and at the sti.
static mut CELL: u64 = 0;
#[inline(never)]
fn window_wi(a: u64, b: u64, c: u64) -> [u64; 2] {
    unsafe {
        let p = std::ptr::addr_of_mut!(CELL);
        *p = a;
        let seen = interrupts::without_interrupts(|| {
            let v = *p;
            *p = b;
            v
        });
        let after = *p;
        *p = c;
        [seen, after]
    }
}
#[inline(never)]
fn window_de(a: u64, b: u64, c: u64) -> [u64; 2] {
    unsafe {
        let p = std::ptr::addr_of_mut!(CELL);
        *p = a;
        interrupts::disable();
        let seen = *p;
        *p = b;
        interrupts::enable();
        let after = *p;
        *p = c;
        [seen, after]
    }
}
/// The closure's result is returned unharmed even when the calling function is a leaf that keeps
/// its locals below the stack pointer (red zone): the flag-reading asm inside the inlined
/// without_interrupts must not scribble there.  A local array is filled, summed word by word
/// inside two nested critical sections, and the words the closure saw are returned.
#[inline(never)]
fn redzone_words(seed: u64) -> [u64; 16] {
    use std::ptr::{read_volatile, write_volatile};
    let mut scratch = [0u64; 16];
    for i in 0..16 {
        unsafe { write_volatile(&mut scratch[i], seed.wrapping_add(i as u64)) };
    }
    interrupts::without_interrupts(|| {
        interrupts::without_interrupts(|| {
            let mut seen = [0u64; 16];
            for i in 0..16 {
                seen[i] = unsafe { read_volatile(&scratch[i]) };
            }
            seen
        })
    })
}
#[inline(never)]
fn redzone_sum(seed: u64) -> u64 {
    use std::ptr::{read_volatile, write_volatile};
    let mut scratch = [0u64; 16];
    for i in 0..16 {
        unsafe { write_volatile(&mut scratch[i], seed.wrapping_add(i as u64)) };
    }
    interrupts::without_interrupts(|| {
        interrupts::without_interrupts(|| {
            let mut sum = 0u64;
            for i in 0..16 {
                sum = sum.wrapping_add(unsafe { read_volatile(&scratch[i]) });
            }
            sum
        })
    })
}

/// the same with are_enabled() only (the flag-reading asm directly in a leaf function)
#[inline(never)]
fn redzone_are_enabled(seed: u64) -> (u64, u64) {
    use std::ptr::{read_volatile, write_volatile};
    let mut scratch = [0u64; 16];
    for i in 0..16 {
        unsafe { write_volatile(&mut scratch[i], seed.wrapping_add(i as u64)) };
    }
    let e = interrupts::are_enabled();
    let mut sum = 0u64;
    for i in 0..16 {
        sum = sum.wrapping_add(unsafe { read_volatile(&scratch[i]) });
    }
    (sum, e as u64)
}
#[inline(never)]
fn redzone_single(seed: u64) -> u64 {
    use std::ptr::{read_volatile, write_volatile};
    let mut scratch = [0u64; 16];
    for i in 0..16 {
        unsafe { write_volatile(&mut scratch[i], seed.wrapping_add(i as u64)) };
    }
    interrupts::without_interrupts(|| {
        let mut sum = 0u64;
        for i in 0..16 {
            sum = sum.wrapping_add(unsafe { read_volatile(&scratch[i]) });
        }
        sum
    })
}

fn run_windows(out: &mut Out, r: &mut Rng) {
    for k in 0..12u64 {
        let seed = if k < 4 { [1u64, 3, 0x1234_5678_9abc_def1, u64::MAX][k as usize] } else { r.next() };
        set_if(k % 2);
        sync_overlay();
        cpu::drain();
        let words = redzone_words(seed);
        let sum = redzone_sum(seed);
        cpu::drain();
        let (sum2, en) = redzone_are_enabled(seed);
        let sum3 = redzone_single(seed);
        cpu::drain();
        out.emit(Ev::new("closure_result").w("seed", seed).words("words", &words).w("sum", sum).w("sum2", sum2).w("sum3", sum3).n("en", en as i64).n("if", k as i64 % 2));
    }
    for i in 0..24u64 {
        let (a, b, c) = (1 + r.below(1000), 2000 + r.below(1000), 4000 + r.below(1000));
        let init = i % 2;
        let api = if i % 4 < 2 { "without_interrupts" } else { "disable;enable" };
        set_if(init);
        sync_overlay();
        cpu::drain();
        cpu::PROBE_SEEN[0].store(0, Ordering::SeqCst);
        cpu::PROBE_SEEN[1].store(0, Ordering::SeqCst);
        cpu::PROBE.store(std::ptr::addr_of_mut!(CELL) as u64, Ordering::SeqCst);
        let got = if i % 4 < 2 { window_wi(a, b, c) } else { window_de(a, b, c) };
        cpu::PROBE.store(0, Ordering::SeqCst);
        let fin = unsafe { std::ptr::read_volatile(std::ptr::addr_of!(CELL)) };
        out.emit(
            Ev::new("window")
                .str("api", api)
                .n("if0", init as i64)
                .ints("p", &[a as i64, b as i64, c as i64])
                .ints("r", &[got[0] as i64, got[1] as i64, fin as i64])
                .ints("h", &[cpu::PROBE_SEEN[0].load(Ordering::SeqCst) as i64, cpu::PROBE_SEEN[1].load(Ordering::SeqCst) as i64])
                .n("if1", cpu::IF.load(Ordering::SeqCst) as i64)
                .raw("instrs", &instrs()),
        );
    }
}

pub fn run_intr(out: &mut Out, seed: u64, n: u64) {
    cpu::reset_regs();
    run_windows(out, &mut Rng::new(seed ^ 0x77));
    let budget = if n >= 100_000 { 5 } else { 4 };
    let all = progs(budget);
    let mut count = 0u64;
    // other RFLAGS bits must not matter: a third of the programs run with the ID flag (bit 21,
    // freely writable in ring 3) set
    fn set_id(on: bool) {
        unsafe {
            core::arch::asm!(
                "pushfq",
                "pop {t}",
                "and {t}, {clr}",
                "or {t}, {set}",
                "push {t}",
                "popfq",
                t = out(reg) _,
                clr = in(reg) !(1u64 << 21),
                set = in(reg) if on { 1u64 << 21 } else { 0 },
            );
        }
    }
    let mut nrun = 0u64;
    let mut run = |p: &Vec<St>, init: u64, out: &mut Out| {
        nrun += 1;
        set_id(nrun % 3 == 0);
        set_if(init);
        sync_overlay();
        cpu::drain();
        out.emit(Ev::new("reset").n("if", init as i64));
        for s in p {
            run_st(s);
        }
        set_id(false);
        IOUT.with(|o| {
            for l in o.borrow_mut().drain(..) {
                out.emit_line(&l);
            }
        });
    };
    for p in &all {
        for init in [0u64, 1] {
            run(p, init, out);
            count += 1;
        }
    }
    // deeper random programs
    let mut r = Rng::new(seed);
    while out.count < n {
        let k = 1 + r.below(4) as usize;
        let p = random_prog(&mut r, 6, false, k);
        run(&p, r.below(2), out);
        count += 1;
    }
    let _ = count;
    VERIF_IF_OVERLAY.store(0, Ordering::SeqCst);
}

// ------------------------------------------------------------------------------------------
// C11: flush operations

use x86_64::instructions::tlb::{self, InvPcidCommand, Invlpgb, Pcid};
use x86_64::structures::paging::mapper::{MapperFlush, MapperFlushAll};
use x86_64::structures::paging::{Page, PageSize, Size1GiB, Size2MiB, Size4KiB};
use x86_64::VirtAddr;

fn vaddr(x: u64) -> VirtAddr {
    unsafe { VirtAddr::new_unsafe(canon(x)) }
}
fn pg<S: PageSize>(a: u64) -> Page<S> {
    unsafe { Page::from_start_address_unchecked(vaddr(a)) }
}

static ASID_OK: std::sync::atomic::AtomicU64 = std::sync::atomic::AtomicU64::new(1);

fn invlpgb_run(s: u8, start: u64, end: u64, count_max: u16, pcid: Option<u16>, asid: Option<u16>, global: bool, fin: bool, nested: bool, nasid: u32) -> bool {
    let inv = Invlpgb::new_verif(count_max, nested, nasid);
    ASID_OK.store(1, Ordering::SeqCst);
    catch(|| {
        macro_rules! go {
            ($S:ty) => {{
                let rg = Page::<$S>::range(pg(start), pg(end));
                // the options may be set before or after the range is given
                let before = ((start >> 12) ^ (start >> 21) ^ count_max as u64 ^ global as u64) & 1 == 1;
                let mut b0 = inv.build();
                if before {
                    unsafe {
                        if let Some(p) = pcid {
                            b0.pcid(Pcid::new(p).unwrap());
                        }
                        if let Some(a) = asid {
                            ASID_OK.store(b0.asid(a).is_ok() as u64, Ordering::SeqCst);
                        }
                    }
                    if global {
                        b0.include_global();
                    }
                    if fin {
                        b0.final_translation_only();
                    }
                }
                let mut b = b0.pages(rg);
                if !before {
                    unsafe {
                        if let Some(p) = pcid {
                            b.pcid(Pcid::new(p).unwrap());
                        }
                        if let Some(a) = asid {
                            ASID_OK.store(b.asid(a).is_ok() as u64, Ordering::SeqCst);
                        }
                    }
                    if global {
                        b.include_global();
                    }
                    if fin {
                        b.final_translation_only();
                    }
                }
                let b = if nested { b.include_nested_translations() } else { b };
                b.flush();
            }};
        }
        if s == 0 {
            go!(Size4KiB)
        } else {
            go!(Size2MiB)
        }
    })
    .is_some()
}

/// `forked`: run the builder in a child with a watchdog, so that a flush that never terminates
/// (or emits an unbounded number of requests) is recorded as k = "hang" instead of hanging the
/// harness.  Used for very long ranges.
fn invlpgb_case(out: &mut Out, s: u8, start: u64, end: u64, count_max: u16, pcid: Option<u16>, asid: Option<u16>, global: bool, fin: bool, nested: bool, nasid: u32, forked: bool) {
    let (k, ins) = if !forked {
        let ok = invlpgb_run(s, start, end, count_max, pcid, asid, global, fin, nested, nasid);
        (if ok { "ok" } else { "panic" }, instrs())
    } else {
        cpu::drain();
        let (recs, st) = crate::idt::in_child_mode(crate::trap::EMU, || {
            unsafe { libc::alarm(20) };
            let ok = invlpgb_run(s, start, end, count_max, pcid, asid, global, fin, nested, nasid);
            let over = cpu::NLOG.load(Ordering::SeqCst) > cpu::MAXLOG;
            for x in cpu::drain() {
                crate::idt::send(&[7, x.m, x.a, x.b, x.c, x.d, x.rip, 0, 0, 0]);
            }
            crate::idt::send(&[8, ok as u64, over as u64, 0, 0, 0, 0, 0, 0, 0]);
        });
        let ins: Vec<cpu::Instr> = recs.iter().filter(|r| r[0] == 7).map(|r| cpu::Instr { m: r[1], a: r[2], b: r[3], c: r[4], d: r[5], rip: r[6] }).collect();
        let k = match recs.iter().find(|r| r[0] == 8) {
            Some(r) if r[2] != 0 => "runaway",
            Some(r) if r[1] != 0 => "ok",
            Some(_) => "panic",
            None if libc::WIFSIGNALED(st) && libc::WTERMSIG(st) == libc::SIGALRM => "hang",
            None => "crash",
        };
        (k, cpu::instrs_json(&ins))
    };
    out.emit(
        Ev::new("invlpgb_flush")
            .n("s", s as i64)
            .w("start", canon(start))
            .w("end", canon(end))
            .n("count_max", count_max as i64)
            .n("pcid", pcid.map(|x| x as i64).unwrap_or(-1))
            .n("asid", asid.map(|x| x as i64).unwrap_or(-1))
            .n("asid_ok", ASID_OK.load(Ordering::SeqCst) as i64)
            .n("nasid", nasid as i64)
            .n("global", global as i64)
            .n("final", fin as i64)
            .n("nested", nested as i64)
            .str("k", k)
            .raw("instrs", &ins),
    );
}

pub fn run_flush(out: &mut Out, seed: u64, n: u64) {
    cpu::reset_regs();
    let lat = lattice_canon();
    let mut r = Rng::new(seed);
    // flush(addr)
    for &a in &lat {
        tlb::flush(vaddr(a));
        out.emit(Ev::new("flush").w("addr", a).raw("instrs", &instrs()));
    }
    for _ in 0..n / 20 {
        let a = canon(r.wide());
        tlb::flush(vaddr(a));
        out.emit(Ev::new("flush").w("addr", a).raw("instrs", &instrs()));
    }
    // flush_all with various CR3 contents
    for &c in &[0u64, 0x1000, 0x1018, 0x000f_ffff_ffff_f000, 0x5000 | 0x008, 0x5000 | 0x010, 0x0123_4567_8000, 0x7000 | 0xabc, 0x7000 | 0xfff, 0x9000 | 0x001] {
        cpu::CR[3].store(c, Ordering::SeqCst);
        tlb::flush_all();
        out.emit(Ev::new("flush_all").w("cr3", c).raw("instrs", &instrs()).w("after", cpu::CR[3].load(Ordering::SeqCst)));
    }
    // tokens
    for _ in 0..n / 20 {
        let a = canon(any64(&mut r, &lat));
        let s = r.below(3);
        let st = a & !((1u64 << (12 + 9 * s)) - 1);
        match s {
            0 => MapperFlush::<Size4KiB>::new(pg(st)).flush(),
            1 => MapperFlush::<Size2MiB>::new(pg(st)).flush(),
            _ => MapperFlush::<Size1GiB>::new(pg(st)).flush(),
        }
        out.emit(Ev::new("token_flush").w("page", st).n("s", s as i64).raw("instrs", &instrs()));
    }
    for &c in &[0x1000u64, 0x2000 | 0x18, 0x000f_ffff_ffff_f000, 0x5000 | 0xabc, 0x7000 | 0xfff, 0x9000 | 0x001, 0x3000 | 0x7e7] {
        cpu::CR[3].store(c, Ordering::SeqCst);
        MapperFlushAll::new().flush_all();
        out.emit(Ev::new("flush_all").w("cr3", c).raw("instrs", &instrs()).w("after", cpu::CR[3].load(Ordering::SeqCst)));
    }
    // Pcid::new over all u16, 256 per event
    for base in (0..65536u32).step_by(256) {
        let v: Vec<i64> = (0..256u32)
            .map(|d| match Pcid::new((base + d) as u16) {
                Ok(p) => p.value() as i64,
                Err(_) => -1,
            })
            .collect();
        out.emit(Ev::new("pcid_block").n("base", base as i64).ints("vals", &v));
    }
    // flush_pcid: 4 kinds x boundary PCIDs x lattice addresses
    let pcids: Vec<u16> = if n >= 100_000 { (0..4096).collect() } else { vec![0, 1, 2, 7, 8, 0xff, 0x100, 0x7ff, 0x800, 0xffe, 0xfff, r.below(4096) as u16, r.below(4096) as u16] };
    for &p in &pcids {
        let pc = match Pcid::new(p) {
            Ok(x) => x,
            Err(_) => {
                // a valid PCID was refused: recorded (and rejected by the specification), not a harness failure
                out.emit(Ev::new("pcid_refused").n("pcid", p as i64));
                continue;
            }
        };
        for kind in 0..4u64 {
            let a = canon(any64(&mut r, &lat));
            unsafe {
                match kind {
                    0 => tlb::flush_pcid(InvPcidCommand::Address(vaddr(a), pc)),
                    1 => tlb::flush_pcid(InvPcidCommand::Single(pc)),
                    2 => tlb::flush_pcid(InvPcidCommand::All),
                    _ => tlb::flush_pcid(InvPcidCommand::AllExceptGlobal),
                }
            }
            out.emit(Ev::new("flush_pcid").n("kind", kind as i64).n("pcid", p as i64).w("addr", a).raw("instrs", &instrs()));
        }
    }
    // broadcast builder
    let inv = Invlpgb::new_verif(7, true, 16);
    inv.tlbsync();
    out.emit(Ev::new("tlbsync").raw("instrs", &instrs()));
    let cms: [u16; 9] = [0, 1, 2, 3, 7, 8, 255, 4096, 65535];
    let mut cases = 0;
    let total = (n / 40).max(150);
    while cases < total {
        let s = r.below(2) as u8;
        let size = 1u64 << (12 + 9 * s as u64);
        let mut cm = if r.chance(3, 4) { *r.pick(&cms) } else { r.below(65536) as u16 };
        let where_ = r.below(7);
        if where_ == 4 {
            cm = r.below(4) as u16; // several requests below the gap
        }
        let len = match r.below(6) {
            0 => 0,
            1 => 1,
            2 => cm as u64,
            3 => cm as u64 + 1,
            4 => (cm as u64 * 2 + 3) % 300,
            _ => r.below(200),
        };
        let len = len.min(600);
        // where: interior, abutting the gap from below, starting at the upper half, reaching the top
        let start = match where_ {
            0 => 0x0000_8000_0000_0000u64.wrapping_sub((len + r.below(3)) * size), // ends at / near the gap
            1 => 0xffff_8000_0000_0000,
            2 => 0u64.wrapping_sub((len + 1 + r.below(2)) * size), // near the top (end stays canonical)
            3 => 0,
            4 => 0x0000_8000_0000_0000u64.wrapping_sub((1 + r.below(len.max(1))) * size), // spans the gap
            _ => (r.below(1 << 46) & !(size - 1)) | if r.chance(1, 2) { 0xffff_8000_0000_0000 } else { 0 },
        };
        let start = canon(start) & !(size - 1);
        let mut end = start.wrapping_add(len * size);
        if start < 0x0000_8000_0000_0000 && end >= 0x0000_8000_0000_0000 && end < 0x0001_0000_0000_0000 {
            // the range reaches or spans the gap: continue counting pages in the upper half
            end = end - 0x0000_8000_0000_0000 + 0xffff_8000_0000_0000;
        }
        if canon(end) != end || (end < start && len > 0) {
            continue;
        }
        // ranges that span the gap (lower-half start, upper-half end) are in scope too: the
        // builder has to split them
        let pcid = if r.chance(1, 2) { Some(r.below(4096) as u16) } else { None };
        let asid = if r.chance(1, 2) { Some(if r.chance(1, 5) { *r.pick(&[16u16, 17, 255, 0xffff]) } else { r.below(16) as u16 }) } else { None };
        invlpgb_case(out, s, start, end, cm, pcid, asid, r.chance(1, 2), r.chance(1, 2), r.chance(1, 3), 16, false);
        cases += 1;
    }
    // a builder without a page range flushes everything: one request without an address
    for i in 0..24u64 {
        let (cm, nested, nasid) = (*r.pick(&cms), i % 3 == 0, 8 + (i as u32 % 3) * 8);
        let inv = Invlpgb::new_verif(cm, nested, nasid);
        // the capabilities the object was created with are what its getters report
        out.emit(Ev::new("invlpgb_caps").n("count_max", cm as i64).n("nested", nested as i64).n("nasid", nasid as i64)
            .ints("got", &[inv.invlpgb_count_max() as i64, inv.tlb_flush_nested() as i64, inv.nasid() as i64]));
        let pcid = if i % 2 == 0 { Some(r.below(4096) as u16) } else { None };
        let asid = if i % 4 < 2 { Some(r.below(24) as u16) } else { None };
        let (global, fin) = (i % 5 < 2, i % 7 < 3);
        let mut asid_ok = 1;
        cpu::drain();
        let ok = catch(|| {
            let mut b = inv.build();
            unsafe {
                if let Some(p) = pcid {
                    b.pcid(Pcid::new(p).unwrap());
                }
                if let Some(a) = asid {
                    asid_ok = b.asid(a).is_ok() as i64;
                }
            }
            if global {
                b.include_global();
            }
            if fin {
                b.final_translation_only();
            }
            let b = if nested { b.include_nested_translations() } else { b };
            b.flush();
        })
        .is_some();
        out.emit(
            Ev::new("invlpgb_all")
                .n("pcid", pcid.map(|x| x as i64).unwrap_or(-1))
                .n("asid", asid.map(|x| x as i64).unwrap_or(-1))
                .n("asid_ok", asid_ok)
                .n("nasid", nasid as i64)
                .n("global", global as i64)
                .n("final", fin as i64)
                .n("nested", nested as i64)
                .str("k", if ok { "ok" } else { "panic" })
                .raw("instrs", &instrs()),
        );
    }
    // very long ranges (more pages than one request can ever carry), run under a watchdog
    let big: [(u8, u16, u64); 10] = [(0, 65535, 65536), (0, 65535, 65537), (0, 65535, 200_000), (1, 65535, 70_000), (0, 65534, 65536), (0, 4096, 50_000), (0, 255, 70_000), (1, 65535, 65535), (0, 32767, 65536 * 2), (0, 65535, 65536 * 3 + 5)];
    for (i, &(s, cm, len)) in big.iter().enumerate() {
        let size = 1u64 << (12 + 9 * s as u64);
        let start = match i % 3 {
            0 => 0x1000_0000_0000u64 & !(size - 1),
            1 => 0xffff_8000_0000_0000,
            _ => 0x0000_8000_0000_0000u64.wrapping_sub((len / 2) * size), // spans the gap
        };
        let mut end = start.wrapping_add(len * size);
        if start < 0x0000_8000_0000_0000 && end >= 0x0000_8000_0000_0000 {
            end = end - 0x0000_8000_0000_0000 + 0xffff_8000_0000_0000;
        }
        invlpgb_case(out, s, start, end, cm, None, if i % 2 == 0 { Some(3) } else { None }, false, i % 4 == 1, false, 16, true);
    }
}
