//! Simulated physical memory: a memfd of 4 KiB frames that can sit at arbitrary physical
//! addresses, presented to the mappers through an offset window (OffsetPageTable), a
//! frame-to-pointer map (MappedPageTable) or a software MMU (RecursivePageTable).

use std::collections::HashMap;

pub const FRAME: usize = 4096;

pub struct PhysMem {
    pub fd: i32,
    pub nslots: usize,
    pub base: *mut u8,
    /// physical frame address -> slot
    pub map: HashMap<u64, usize>,
    /// slot -> physical frame address (u64::MAX = unassigned)
    pub rev: Vec<u64>,
    /// extra fixed mappings created for the offset window: (virtual address)
    pub windows: Vec<u64>,
    pub snapshot: Vec<u8>,
}

impl PhysMem {
    pub fn new(nslots: usize) -> PhysMem {
        unsafe {
            let name = b"xv-physmem\0";
            let fd = libc::memfd_create(name.as_ptr() as *const libc::c_char, 0);
            if fd < 0 {
                eprintln!("xv: memfd_create failed");
                std::process::exit(2);
            }
            if libc::ftruncate(fd, (nslots * FRAME) as libc::off_t) != 0 {
                eprintln!("xv: ftruncate failed");
                std::process::exit(2);
            }
            let base = libc::mmap(
                std::ptr::null_mut(),
                nslots * FRAME,
                libc::PROT_READ | libc::PROT_WRITE,
                libc::MAP_SHARED,
                fd,
                0,
            );
            if base == libc::MAP_FAILED {
                eprintln!("xv: mmap of arena failed");
                std::process::exit(2);
            }
            PhysMem {
                fd,
                nslots,
                base: base as *mut u8,
                map: HashMap::new(),
                rev: vec![u64::MAX; nslots],
                windows: Vec::new(),
                snapshot: vec![0u8; nslots * FRAME],
            }
        }
    }

    /// forget all frame assignments and offset windows
    pub fn reset(&mut self) {
        for w in self.windows.drain(..) {
            unsafe {
                libc::munmap(w as *mut libc::c_void, FRAME);
            }
        }
        self.map.clear();
        for r in self.rev.iter_mut() {
            *r = u64::MAX;
        }
    }

    /// give the frame at physical address `pa` a backing slot
    pub fn assign(&mut self, pa: u64) -> usize {
        if let Some(&s) = self.map.get(&pa) {
            return s;
        }
        let slot = self
            .rev
            .iter()
            .position(|&r| r == u64::MAX)
            .unwrap_or_else(|| {
                eprintln!("xv: arena exhausted");
                std::process::exit(2)
            });
        self.rev[slot] = pa;
        self.map.insert(pa, slot);
        slot
    }

    /// additionally make the frame visible at `window_base + pa` (offset mapping)
    pub fn window(&mut self, window_base: u64, pa: u64) -> bool {
        let slot = self.assign(pa);
        let va = window_base + pa;
        unsafe {
            let p = libc::mmap(
                va as *mut libc::c_void,
                FRAME,
                libc::PROT_READ | libc::PROT_WRITE,
                libc::MAP_SHARED | libc::MAP_FIXED_NOREPLACE,
                self.fd,
                (slot * FRAME) as libc::off_t,
            );
            if p == libc::MAP_FAILED || p as u64 != va {
                if p != libc::MAP_FAILED {
                    libc::munmap(p, FRAME);
                }
                return false;
            }
        }
        self.windows.push(va);
        true
    }

    pub fn slot_ptr(&self, slot: usize) -> *mut u64 {
        unsafe { self.base.add(slot * FRAME) as *mut u64 }
    }
    pub fn frame_ptr(&self, pa: u64) -> Option<*mut u64> {
        self.map.get(&pa).map(|&s| self.slot_ptr(s))
    }
    pub fn read(&self, pa: u64, idx: usize) -> u64 {
        unsafe { *self.frame_ptr(pa).expect("frame").add(idx) }
    }
    pub fn write(&self, pa: u64, idx: usize, v: u64) {
        unsafe { *self.frame_ptr(pa).expect("frame").add(idx) = v }
    }
    pub fn fill(&self, pa: u64, f: impl Fn(usize) -> u64) {
        let p = self.frame_ptr(pa).expect("frame");
        for i in 0..512 {
            unsafe { *p.add(i) = f(i) }
        }
    }
    pub fn take_snapshot(&mut self) {
        unsafe {
            std::ptr::copy_nonoverlapping(self.base, self.snapshot.as_mut_ptr(), self.nslots * FRAME);
        }
    }
    /// (physical frame, index, old, new) of every 8-byte slot that differs from the snapshot
    pub fn diff(&self) -> Vec<(u64, usize, u64, u64)> {
        let mut out = Vec::new();
        let snap = self.snapshot.as_ptr() as *const u64;
        let cur = self.base as *const u64;
        for slot in 0..self.nslots {
            if self.rev[slot] == u64::MAX {
                continue;
            }
            for i in 0..512 {
                let (o, n) = unsafe { (*snap.add(slot * 512 + i), *cur.add(slot * 512 + i)) };
                if o != n {
                    out.push((self.rev[slot], i, o, n));
                }
            }
        }
        out
    }
    pub fn nonzero(&self, pa: u64) -> Vec<(usize, u64)> {
        let p = self.frame_ptr(pa).expect("frame");
        (0..512)
            .filter_map(|i| {
                let v = unsafe { *p.add(i) };
                if v != 0 {
                    Some((i, v))
                } else {
                    None
                }
            })
            .collect()
    }
}

pub fn junk(pa: u64, i: usize) -> u64 {
    // Never zero.  The pattern depends on the frame: entries that look like present pointers to
    // wild frames, all-even words (no PRESENT bit anywhere), a constant fill, or mixed garbage.
    let x = 0xa5a5_0000_0000_0067 ^ (pa.rotate_left(7)) ^ ((i as u64) << 12);
    match (pa >> 12).wrapping_mul(0x9e37) >> 3 & 3 {
        0 => x | 1,
        1 => (x & !1) | 2,
        2 => 0xaaaa_aaaa_aaaa_aaaa,
        _ => {
            if i % 2 == 0 {
                x | 1
            } else {
                0x5a5a_5a5a_5a5a_5a5a
            }
        }
    }
}
