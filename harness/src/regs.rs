//! Driver for the system-register wrappers (C16).  The emulated register is preset, the real
//! wrapper is called, and the event records: preset value, trapped instructions (register
//! number / MSR index in ECX, operand value as the CPU would see it), return values, the
//! type's mask of modelled bits, and the emulated register afterwards.

use crate::cpu;
use crate::gen::*;
use crate::out::*;
use std::sync::atomic::Ordering::SeqCst;
use x86_64::instructions::segmentation::{Segment, Segment64, CS, DS, ES, FS, GS, SS};
use x86_64::instructions::tables::load_tss;
use x86_64::instructions::tlb::Pcid;
use x86_64::registers::control::{Cr0, Cr0Flags, Cr2, Cr3, Cr3Flags, Cr4, Cr4Flags};
use x86_64::registers::debug::{Dr0, Dr1, Dr2, Dr3, Dr6, Dr6Flags, Dr7, Dr7Flags, Dr7Value, DebugAddressRegister};
use x86_64::registers::model_specific::{
    ApicBase, ApicBaseFlags, CetFlags, Efer, EferFlags, FsBase, GsBase, KernelGsBase, LStar, Msr, Pat,
    PatMemoryType, SCet, SFMask, Star, UCet,
};
use x86_64::registers::rflags::{self, RFlags};
use x86_64::registers::xcontrol::{XCr0, XCr0Flags};
use x86_64::structures::gdt::SegmentSelector;
use x86_64::structures::paging::{Page, PhysFrame, Size4KiB};
use x86_64::{PhysAddr, VirtAddr};

#[derive(Clone, Copy)]
enum Reg {
    Cr(usize),
    Dr(usize),
    Msr(u64),
    None,
}

fn get(r: Reg) -> u64 {
    match r {
        Reg::Cr(n) => cpu::CR[n].load(SeqCst),
        Reg::Dr(n) => cpu::DR[n].load(SeqCst),
        Reg::Msr(i) => cpu::msr_get(i),
        Reg::None => 0,
    }
}
fn set(r: Reg, v: u64) {
    match r {
        Reg::Cr(n) => cpu::CR[n].store(v, SeqCst),
        Reg::Dr(n) => cpu::DR[n].store(v, SeqCst),
        Reg::Msr(i) => cpu::msr_set(i, v),
        Reg::None => {}
    }
}
fn reg_json(r: Reg) -> (&'static str, i64, u64) {
    match r {
        Reg::Cr(n) => ("cr", n as i64, 0),
        Reg::Dr(n) => ("dr", n as i64, 0),
        Reg::Msr(i) => ("msr", 0, i),
        Reg::None => ("none", 0, 0),
    }
}

struct Call {
    api: &'static str,
    reg: Reg,
    pre: u64,
    mask: u64,
    p: [u64; 4],
}

/// run one wrapper call against a preset register and record it
fn call(out: &mut Out, c: Call, f: impl FnOnce() -> Result<Vec<u64>, &'static str>) {
    set(c.reg, c.pre);
    cpu::drain();
    let r = catch(f);
    let ins = cpu::drain();
    let post = get(c.reg);
    let (k, rets): (&str, Vec<u64>) = match r {
        Some(Ok(v)) => ("ok", v),
        Some(Err(e)) => (e, vec![]),
        None => ("panic", vec![]),
    };
    let (rk, rn, ri) = reg_json(c.reg);
    out.emit(
        Ev::new("reg")
            .str("api", c.api)
            .str("rk", rk)
            .n("rn", rn)
            .w("ri", ri)
            .w("pre", c.pre)
            .w("post", post)
            .w("mask", c.mask)
            .words("p", &c.p)
            .str("k", k)
            .words("r", &rets)
            .raw("instrs", &cpu::instrs_json(&ins)),
    );
}

fn frame(a: u64) -> PhysFrame<Size4KiB> {
    PhysFrame::containing_address(PhysAddr::new(a & 0x000f_ffff_ffff_f000))
}
fn vaddr(a: u64) -> VirtAddr {
    VirtAddr::new_truncate(a)
}

fn contents(r: &mut Rng, mask: u64) -> Vec<u64> {
    vec![0, u64::MAX, !mask, mask, 0xaaaa_aaaa_aaaa_aaaa, 0x5555_5555_5555_5555, r.next(), r.next() & mask, r.next() | !mask]
}
fn subsets(r: &mut Rng, mask: u64) -> Vec<u64> {
    let mut v = vec![0, mask];
    for b in 0..64 {
        if mask >> b & 1 == 1 {
            v.push(1 << b);
        }
    }
    for _ in 0..6 {
        v.push(r.next() & mask);
    }
    v
}

macro_rules! flag_reg {
    ($out:expr, $r:expr, $T:ident, $F:ident, $reg:expr, $name:literal) => {{
        let mask = $F::all().bits();
        for pre in contents($r, mask) {
            call($out, Call { api: concat!($name, "::read"), reg: $reg, pre, mask, p: [0; 4] }, || Ok(vec![$T::read().bits()]));
            call($out, Call { api: concat!($name, "::read_raw"), reg: $reg, pre, mask, p: [0; 4] }, || Ok(vec![$T::read_raw()]));
            for fl in subsets($r, mask) {
                call($out, Call { api: concat!($name, "::write"), reg: $reg, pre, mask, p: [fl, 0, 0, 0] }, || {
                    unsafe { $T::write($F::from_bits_retain(fl)) };
                    Ok(vec![])
                });
            }
            let raw = $r.next();
            call($out, Call { api: concat!($name, "::write_raw"), reg: $reg, pre, mask, p: [raw, 0, 0, 0] }, || {
                unsafe { $T::write_raw(raw) };
                Ok(vec![])
            });
            let (st, cl) = ($r.next() & mask, $r.next() & mask);
            call($out, Call { api: concat!($name, "::update"), reg: $reg, pre, mask, p: [st, cl, 0, 0] }, || {
                let mut seen = 0;
                unsafe {
                    $T::update(|f| {
                        seen = f.bits();
                        f.insert($F::from_bits_retain(st));
                        f.remove($F::from_bits_retain(cl));
                    })
                };
                Ok(vec![seen])
            });
        }
    }};
}

const EFER: u64 = 0xC000_0080;
const FSBASE: u64 = 0xC000_0100;
const GSBASE: u64 = 0xC000_0101;
const KGSBASE: u64 = 0xC000_0102;
const STAR: u64 = 0xC000_0081;
const LSTAR: u64 = 0xC000_0082;
const SFMASK: u64 = 0xC000_0084;
const UCET: u64 = 0x6A0;
const SCET: u64 = 0x6A2;
const PAT: u64 = 0x277;
const APIC: u64 = 0x1B;

#[inline(never)]
fn rflags_id_roundtrip() -> [u64; 3] {
    // all in one function so that a stale (merged) flag read would show
    let r0 = rflags::read_raw();
    unsafe { rflags::write_raw(r0 ^ (1 << 21)) };
    let r1 = rflags::read_raw();
    unsafe { rflags::write_raw(r0) };
    let r2 = rflags::read_raw();
    [r0, r1, r2]
}
#[inline(never)]
fn rflags_typed_roundtrip() -> [u64; 3] {
    let f0 = rflags::read();
    unsafe { rflags::write(f0 ^ RFlags::ID) };
    let f1 = rflags::read();
    unsafe { rflags::write(f0) };
    let f2 = rflags::read();
    [f0.bits(), f1.bits(), f2.bits()]
}

#[inline(never)]
fn rflags_update_roundtrip() -> [u64; 3] {
    let f0 = rflags::read();
    unsafe { rflags::update(|f| f.toggle(RFlags::ID)) };
    let f1 = rflags::read();
    unsafe { rflags::update(|f| *f = f0) };
    let f2 = rflags::read();
    [f0.bits(), f1.bits(), f2.bits()]
}

/// RFLAGS accessors inlined into a leaf function that keeps its locals in the red zone: the
/// push/pop inside the accessors must not overwrite them
#[inline(never)]
fn rflags_redzone(seed: u64) -> [u64; 3] {
    use std::ptr::{read_volatile, write_volatile};
    let mut scratch = [0u64; 16];
    for i in 0..16 {
        unsafe { write_volatile(&mut scratch[i], seed.wrapping_add(i as u64)) };
    }
    let f0 = rflags::read_raw();
    unsafe { rflags::write_raw(f0 ^ (1 << 21)) };
    let f1 = rflags::read();
    unsafe { rflags::write(RFlags::from_bits_retain(f0)) };
    let mut sum = 0u64;
    for i in 0..16 {
        sum = sum.wrapping_add(unsafe { read_volatile(&scratch[i]) });
    }
    [sum, f0, f1.bits()]
}

/// two read-modify-write updates in one (inlinable) function: the second must see the first
#[inline(never)]
fn cr4_two_updates(a: u64, b: u64) -> [u64; 2] {
    let mut seen = [0u64; 2];
    unsafe {
        Cr4::update(|f| {
            seen[0] = f.bits();
            f.insert(Cr4Flags::from_bits_retain(a));
        });
        Cr4::update(|f| {
            seen[1] = f.bits();
            f.insert(Cr4Flags::from_bits_retain(b));
        });
    }
    seen
}
#[inline(never)]
fn cr0_write_then_read(a: u64) -> [u64; 3] {
    let r0 = Cr0::read_raw();
    unsafe { Cr0::write_raw(a) };
    let r1 = Cr0::read_raw();
    let f1 = Cr0::read().bits();
    [r0, r1, f1]
}
/// DR7 and DR0: read, write, read in one function
#[inline(never)]
fn dr_write_then_read(a: u64, b: u64) -> [u64; 4] {
    let r0 = Dr7::read_raw();
    Dr7::write_raw(a);
    let r1 = Dr7::read_raw();
    let d0 = Dr0::read();
    Dr0::write(b);
    let d1 = Dr0::read();
    [r0, r1, d0, d1]
}
/// CR3 read, write, read in one function: the second read must see the write
#[inline(never)]
fn cr3_write_then_read(frame: u64, low: u16) -> [u64; 4] {
    let (f0, l0) = Cr3::read_raw();
    unsafe { Cr3::write_raw(PhysFrame::containing_address(PhysAddr::new(frame)), low) };
    let (f1, l1) = Cr3::read_raw();
    [f0.start_address().as_u64(), l0 as u64, f1.start_address().as_u64(), l1 as u64]
}
#[inline(never)]
fn efer_two_updates(a: u64, b: u64) -> [u64; 2] {
    let mut seen = [0u64; 2];
    unsafe {
        Efer::update(|f| {
            seen[0] = f.bits();
            f.insert(EferFlags::from_bits_retain(a));
        });
        Efer::update(|f| {
            seen[1] = f.bits();
            f.remove(EferFlags::from_bits_retain(b));
        });
    }
    seen
}

fn native_u64(asm_read: impl FnOnce() -> u64) -> u64 {
    asm_read()
}

pub fn run_regs(out: &mut Out, seed: u64, _n: u64) {
    cpu::reset_regs();
    x86_64::registers::rflags::VERIF_IF_OVERLAY.store(0, SeqCst);
    let mut r = Rng::new(seed);
    let r = &mut r;
    let lat = lattice64();
    let frames: Vec<u64> = vec![0, 0x1000, 0x7fff_f000, 0x1234_5678_9000, 0x0008_0000_0000_0000, 0x000f_ffff_ffff_f000, 0x0001_0000_0000_0000];

    flag_reg!(out, r, Cr0, Cr0Flags, Reg::Cr(0), "Cr0");
    flag_reg!(out, r, Cr4, Cr4Flags, Reg::Cr(4), "Cr4");
    flag_reg!(out, r, Efer, EferFlags, Reg::Msr(EFER), "Efer");

    // sequences inside one function (a stale, merged read would show here)
    for _ in 0..30 {
        let m4 = Cr4Flags::all().bits();
        let (pre, a, b) = (r.next(), r.next() & m4, r.next() & m4);
        set(Reg::Cr(4), pre);
        cpu::drain();
        let seen = cr4_two_updates(a, b);
        let ins = cpu::drain();
        out.emit(Ev::new("reg_seq").str("api", "Cr4::update;Cr4::update").w("pre", pre).w("mask", m4).words("p", &[a, b]).words("r", &seen).w("post", get(Reg::Cr(4))).raw("instrs", &cpu::instrs_json(&ins)));
        let (pre, a) = (r.next(), r.next());
        set(Reg::Cr(0), pre);
        cpu::drain();
        let got = cr0_write_then_read(a);
        let ins = cpu::drain();
        out.emit(Ev::new("reg_seq").str("api", "Cr0::read_raw;Cr0::write_raw;Cr0::read_raw;Cr0::read").w("pre", pre).w("mask", Cr0Flags::all().bits()).words("p", &[a, 0]).words("r", &got).w("post", get(Reg::Cr(0))).raw("instrs", &cpu::instrs_json(&ins)));
        {
            let pre = (r.next() & 0x000f_ffff_ffff_f000) | (r.next() & 0xfff);
            let (fr, low) = (r.next() & 0x000f_ffff_ffff_f000, (r.next() & 0xfff) as u16);
            set(Reg::Cr(3), pre);
            cpu::drain();
            let got = cr3_write_then_read(fr, low);
            let ins = cpu::drain();
            out.emit(Ev::new("reg_seq").str("api", "Cr3::read_raw;Cr3::write_raw;Cr3::read_raw").w("pre", pre).w("mask", 0).words("p", &[fr, low as u64]).words("r", &got).w("post", get(Reg::Cr(3))).raw("instrs", &cpu::instrs_json(&ins)));
        }
        {
            let (pre7, pre0, a, b) = (r.next(), r.next(), r.next(), r.next());
            set(Reg::Dr(7), pre7);
            set(Reg::Dr(0), pre0);
            cpu::drain();
            let got = dr_write_then_read(a, b);
            let ins = cpu::drain();
            out.emit(Ev::new("reg_seq").str("api", "Dr7/Dr0 read;write;read").w("pre", pre7).w("mask", pre0).words("p", &[a, b]).words("r", &got).w("post", get(Reg::Dr(7))).raw("instrs", &cpu::instrs_json(&ins)));
        }
        let me = EferFlags::all().bits();
        let (pre, a, b) = (r.next(), r.next() & me, r.next() & me);
        set(Reg::Msr(EFER), pre);
        cpu::drain();
        let seen = efer_two_updates(a, b);
        let ins = cpu::drain();
        out.emit(Ev::new("reg_seq").str("api", "Efer::update;Efer::update").w("pre", pre).w("mask", me).words("p", &[a, b]).words("r", &seen).w("post", get(Reg::Msr(EFER))).raw("instrs", &cpu::instrs_json(&ins)));
    }
    // Pcid::new accepts exactly 0..4096 (the value is or-ed into CR3 by the pcid writes)
    for x in [0u16, 1, 4094, 4095, 4096, 4097, 8191, 8192, 0xffff] {
        out.emit(Ev::new("pcid_new").n("x", x as i64).n("ok", Pcid::new(x).is_ok() as i64));
    }

    // CR2
    for &pre in lat.iter().step_by(3) {
        call(out, Call { api: "Cr2::read", reg: Reg::Cr(2), pre, mask: 0, p: [0; 4] }, || match Cr2::read() {
            Ok(v) => Ok(vec![v.as_u64()]),
            Err(_) => Err("err"),
        });
        call(out, Call { api: "Cr2::read_raw", reg: Reg::Cr(2), pre, mask: 0, p: [0; 4] }, || Ok(vec![Cr2::read_raw()]));
    }

    // CR3
    let c3mask = Cr3Flags::all().bits();
    let mut cr3pres: Vec<u64> = Vec::new();
    for &f in &frames {
        for low in [0u64, 0x8, 0x10, 0x18, 0xabc, 0xfff, 0x001] {
            cr3pres.push(f | low);
        }
    }
    cr3pres.push(u64::MAX >> 12 << 12 >> 0 & 0x000f_ffff_ffff_ffff);
    for &pre in &cr3pres {
        call(out, Call { api: "Cr3::read", reg: Reg::Cr(3), pre, mask: c3mask, p: [0; 4] }, || {
            let (f, fl) = Cr3::read();
            Ok(vec![f.start_address().as_u64(), fl.bits()])
        });
        call(out, Call { api: "Cr3::read_raw", reg: Reg::Cr(3), pre, mask: c3mask, p: [0; 4] }, || {
            let (f, v) = Cr3::read_raw();
            Ok(vec![f.start_address().as_u64(), v as u64])
        });
        call(out, Call { api: "Cr3::read_pcid", reg: Reg::Cr(3), pre, mask: c3mask, p: [0; 4] }, || {
            let (f, v) = Cr3::read_pcid();
            Ok(vec![f.start_address().as_u64(), v.value() as u64])
        });
        let nf = *r.pick(&frames);
        let fl = *r.pick(&[0u64, 0x8, 0x10, 0x18]);
        let pc = *r.pick(&[0u64, 1, 7, 8, 0xff, 0x7ff, 0x800, 0xffe, 0xfff]);
        let raw12 = r.below(4096);
        call(out, Call { api: "Cr3::write", reg: Reg::Cr(3), pre, mask: c3mask, p: [nf, fl, 0, 0] }, || {
            unsafe { Cr3::write(frame(nf), Cr3Flags::from_bits_retain(fl)) };
            Ok(vec![])
        });
        call(out, Call { api: "Cr3::write_pcid", reg: Reg::Cr(3), pre, mask: c3mask, p: [nf, pc, 0, 0] }, || {
            unsafe { Cr3::write_pcid(frame(nf), Pcid::new(pc as u16).unwrap()) };
            Ok(vec![])
        });
        call(out, Call { api: "Cr3::write_pcid_no_flush", reg: Reg::Cr(3), pre, mask: c3mask, p: [nf, pc, 0, 0] }, || {
            unsafe { Cr3::write_pcid_no_flush(frame(nf), Pcid::new(pc as u16).unwrap()) };
            Ok(vec![])
        });
        call(out, Call { api: "Cr3::write_raw", reg: Reg::Cr(3), pre, mask: c3mask, p: [nf, raw12, 0, 0] }, || {
            unsafe { Cr3::write_raw(frame(nf), raw12 as u16) };
            Ok(vec![])
        });
        call(out, Call { api: "Cr3::update", reg: Reg::Cr(3), pre, mask: c3mask, p: [nf, fl, 0, 0] }, || {
            let mut seen = vec![];
            unsafe {
                Cr3::update(|f, g| {
                    seen = vec![f.start_address().as_u64(), g.bits()];
                    *f = frame(nf);
                    *g = Cr3Flags::from_bits_retain(fl);
                })
            };
            Ok(seen)
        });
        call(out, Call { api: "Cr3::update_pcid", reg: Reg::Cr(3), pre, mask: c3mask, p: [nf, pc, 0, 0] }, || {
            let mut seen = vec![];
            unsafe {
                Cr3::update_pcid(|f, g| {
                    seen = vec![f.start_address().as_u64(), g.value() as u64];
                    *f = frame(nf);
                    *g = Pcid::new(pc as u16).unwrap();
                })
            };
            Ok(seen)
        });
        call(out, Call { api: "Cr3::update_pcid_no_flush", reg: Reg::Cr(3), pre, mask: c3mask, p: [nf, pc, 0, 0] }, || {
            let mut seen = vec![];
            unsafe {
                Cr3::update_pcid_no_flush(|f, g| {
                    seen = vec![f.start_address().as_u64(), g.value() as u64];
                    *f = frame(nf);
                    *g = Pcid::new(pc as u16).unwrap();
                })
            };
            Ok(seen)
        });
    }

    // debug registers
    macro_rules! dreg {
        ($T:ident, $n:expr, $name:literal) => {
            for &pre in lat.iter().step_by(7) {
                call(out, Call { api: concat!($name, "::read"), reg: Reg::Dr($n), pre, mask: 0, p: [0; 4] }, || Ok(vec![$T::read()]));
                let v = any64(r, &lat);
                call(out, Call { api: concat!($name, "::write"), reg: Reg::Dr($n), pre, mask: 0, p: [v, 0, 0, 0] }, || {
                    $T::write(v);
                    Ok(vec![])
                });
            }
        };
    }
    dreg!(Dr0, 0, "Dr0");
    dreg!(Dr1, 1, "Dr1");
    dreg!(Dr2, 2, "Dr2");
    dreg!(Dr3, 3, "Dr3");
    let d6mask = Dr6Flags::all().bits();
    for pre in contents(r, d6mask) {
        call(out, Call { api: "Dr6::read", reg: Reg::Dr(6), pre, mask: d6mask, p: [0; 4] }, || Ok(vec![Dr6::read().bits()]));
        call(out, Call { api: "Dr6::read_raw", reg: Reg::Dr(6), pre, mask: d6mask, p: [0; 4] }, || Ok(vec![Dr6::read_raw()]));
    }
    let d7mask = Dr7Value::from_bits_truncate(u64::MAX).bits();
    let d7flags = Dr7Flags::all().bits();
    // DR7 fields written are the fields read back (typed write, typed read, field accessors)
    {
        use x86_64::registers::debug::{BreakpointCondition, BreakpointSize, DebugAddressRegisterNumber};
        let conds = [BreakpointCondition::InstructionExecution, BreakpointCondition::DataWrites, BreakpointCondition::IoReadsWrites, BreakpointCondition::DataReadsWrites];
        let sizes = [BreakpointSize::Length1B, BreakpointSize::Length2B, BreakpointSize::Length8B, BreakpointSize::Length4B];
        let nums = [DebugAddressRegisterNumber::Dr0, DebugAddressRegisterNumber::Dr1, DebugAddressRegisterNumber::Dr2, DebugAddressRegisterNumber::Dr3];
        for k in 0..48u64 {
            let mut v = Dr7Value::from_bits_truncate(0);
            let mut want: Vec<i64> = Vec::new();
            for (i, n) in nums.iter().enumerate() {
                let (c, z) = ((k as usize + i) % 4, (k as usize / 4 + 2 * i) % 4);
                v.set_condition(*n, conds[c]);
                v.set_size(*n, sizes[z]);
                want.push(c as i64);
                want.push(z as i64);
            }
            let fl = r.next() & d7flags;
            v.insert_flags(Dr7Flags::from_bits_retain(fl));
            set(Reg::Dr(7), r.next() & !d7mask);
            cpu::drain();
            let got = catch(|| {
                Dr7::write(v);
                let back = Dr7::read();
                let mut g: Vec<i64> = Vec::new();
                for n in nums.iter() {
                    g.push(back.condition(*n) as u8 as i64);
                    g.push(back.size(*n) as u8 as i64);
                }
                (g, back.flags().bits())
            });
            cpu::drain();
            let (g, f) = got.unwrap_or((vec![-1], 0));
            // conditions are numbered 0..3 as in the manuals; sizes by their two-bit encoding
            out.emit(Ev::new("dr7_rt").ints("want", &want).ints("got", &g).w("flags", fl).w("got_flags", f));
        }
    }
    for pre in contents(r, d7mask) {
        call(out, Call { api: "Dr7::read", reg: Reg::Dr(7), pre, mask: d7mask, p: [0; 4] }, || Ok(vec![Dr7::read().bits()]));
        call(out, Call { api: "Dr7::read_raw", reg: Reg::Dr(7), pre, mask: d7mask, p: [0; 4] }, || Ok(vec![Dr7::read_raw()]));
        for v in subsets(r, d7mask).into_iter().step_by(3) {
            call(out, Call { api: "Dr7::write", reg: Reg::Dr(7), pre, mask: d7mask, p: [v, 0, 0, 0] }, || {
                Dr7::write(Dr7Value::from_bits_truncate(v));
                Ok(vec![])
            });
        }
        let raw = r.next();
        call(out, Call { api: "Dr7::write_raw", reg: Reg::Dr(7), pre, mask: d7mask, p: [raw, 0, 0, 0] }, || {
            Dr7::write_raw(raw);
            Ok(vec![])
        });
        let (st, cl) = (r.next() & d7flags, r.next() & d7flags);
        call(out, Call { api: "Dr7::update", reg: Reg::Dr(7), pre, mask: d7mask, p: [st, cl, 0, 0] }, || {
            let mut seen = 0;
            Dr7::update(|v| {
                seen = v.bits();
                v.insert_flags(Dr7Flags::from_bits_retain(st));
                v.remove_flags(Dr7Flags::from_bits_retain(cl));
            });
            Ok(vec![seen])
        });
    }

    // generic MSR object
    for _ in 0..60 {
        let idx = if r.chance(1, 2) { *r.pick(&[0u64, 1, 0x10, 0x1b, 0x277, 0x6a0, 0xc000_0080, 0xc000_0100, 0xffff_ffff]) } else { r.below(1 << 32) };
        let pre = any64(r, &lat);
        let v = any64(r, &lat);
        call(out, Call { api: "Msr::read", reg: Reg::Msr(idx), pre, mask: 0, p: [0; 4] }, || Ok(vec![unsafe { Msr::new(idx as u32).read() }]));
        call(out, Call { api: "Msr::write", reg: Reg::Msr(idx), pre, mask: 0, p: [v, 0, 0, 0] }, || {
            unsafe { Msr::new(idx as u32).write(v) };
            Ok(vec![])
        });
    }

    // address-valued MSRs
    macro_rules! addr_msr {
        ($T:ident, $idx:expr, $name:literal) => {
            for &a in lattice_canon().iter().step_by(5) {
                call(out, Call { api: concat!($name, "::read"), reg: Reg::Msr($idx), pre: a, mask: 0, p: [0; 4] }, || Ok(vec![$T::read().as_u64()]));
                let v = canon(any64(r, &lat));
                call(out, Call { api: concat!($name, "::write"), reg: Reg::Msr($idx), pre: a, mask: 0, p: [v, 0, 0, 0] }, || {
                    $T::write(vaddr(v));
                    Ok(vec![])
                });
            }
        };
    }
    addr_msr!(FsBase, FSBASE, "FsBase");
    addr_msr!(GsBase, GSBASE, "GsBase");
    addr_msr!(KernelGsBase, KGSBASE, "KernelGsBase");
    addr_msr!(LStar, LSTAR, "LStar");

    // STAR
    for _ in 0..120 {
        let sysret = r.below(0xffe0) as u64;
        let syscall = r.below(0xfff0) as u64;
        let pre = (sysret << 48) | (syscall << 32) | (r.next() & 0xffff_ffff);
        call(out, Call { api: "Star::read_raw", reg: Reg::Msr(STAR), pre, mask: 0, p: [0; 4] }, || {
            let (a, b) = Star::read_raw();
            Ok(vec![a as u64, b as u64])
        });
        call(out, Call { api: "Star::read", reg: Reg::Msr(STAR), pre, mask: 0, p: [0; 4] }, || {
            let (a, b, c, d) = Star::read();
            Ok(vec![a.0 as u64, b.0 as u64, c.0 as u64, d.0 as u64])
        });
        let (a, b) = (r.below(65536), r.below(65536));
        call(out, Call { api: "Star::write_raw", reg: Reg::Msr(STAR), pre, mask: 0, p: [a, b, 0, 0] }, || {
            unsafe { Star::write_raw(a as u16, b as u16) };
            Ok(vec![])
        });
        // typed write: valid quadruples and each documented invalid class
        let ss_sysret = ((8 + r.below(0x1ff0)) << 3 | 3) & 0xffff;
        let cs_syscall = (r.below(0x1ff0) << 3) & 0xffff;
        let mut q = [ss_sysret + 8, ss_sysret, cs_syscall, cs_syscall + 8];
        match r.below(12) {
            // every requested privilege level on both selectors of a pair (the offset rule stays satisfied)
            5 | 6 => {
                let rpl = r.below(3); // 0, 1, 2: not ring 3
                q[1] = (q[1] & !3) | rpl;
                q[0] = (q[0] & !3) | rpl;
            }
            7 | 8 => {
                let rpl = 1 + r.below(3); // 1, 2, 3: not ring 0
                q[3] = (q[3] & !3) | rpl;
                q[2] = (q[2] & !3) | rpl;
            }
            0 => q[0] = q[0].wrapping_add(8) & 0xffff,
            1 => q[3] = q[3].wrapping_add(8) & 0xffff,
            2 => {
                q[1] &= !3;
                q[0] &= !3;
            }
            3 => {
                q[3] |= 1;
                q[2] |= 1;
            }
            4 => q[1] = (q[1] & !3) | 2,
            _ => {}
        }
        call(out, Call { api: "Star::write", reg: Reg::Msr(STAR), pre, mask: 0, p: q }, || {
            match Star::write(SegmentSelector(q[0] as u16), SegmentSelector(q[1] as u16), SegmentSelector(q[2] as u16), SegmentSelector(q[3] as u16)) {
                Ok(()) => Ok(vec![]),
                Err(_) => Err("err"),
            }
        });
    }

    // Star::write at both ends of the selector range: the offset rules are over the integers,
    // pairs that only match modulo 2^16 are invalid.  (A SYSRET pair with ss < 8 that satisfies
    // the rule has no representable STAR value; that corner is skipped, see DESIGN §6.3.)
    {
        let ends: [u64; 14] = [0, 3, 4, 7, 8, 11, 16, 19, 0xfff0, 0xfff3, 0xfff8, 0xfffb, 0xfffc, 0xffff];
        for &cs_ret in &ends {
            for &ss_ret in &ends {
                for (cs_call, ss_call) in [(8u64, 16u64), (0xfff8, 0), (0xfffc, 4), (0xfff0, 0xfff8), (0, 8), (0xfff8, 0xfff0)] {
                    if ss_ret < 8 && cs_ret as i64 - 16 == ss_ret as i64 - 8 {
                        continue;
                    }
                    let q = [cs_ret, ss_ret, cs_call, ss_call];
                    call(out, Call { api: "Star::write", reg: Reg::Msr(STAR), pre: 0x1234_0000_5678_0000, mask: 0, p: q }, || {
                        match Star::write(SegmentSelector(q[0] as u16), SegmentSelector(q[1] as u16), SegmentSelector(q[2] as u16), SegmentSelector(q[3] as u16)) {
                            Ok(()) => Ok(vec![]),
                            Err(_) => Err("err"),
                        }
                    });
                }
            }
        }
    }

    // SFMASK (contents restricted to the bits RFlags models: read() unwraps from_bits)
    let rfmask = RFlags::all().bits();
    for pre in [0u64, rfmask, 0x200, 0x4_0700, r.next() & rfmask, r.next() & rfmask] {
        call(out, Call { api: "SFMask::read", reg: Reg::Msr(SFMASK), pre, mask: rfmask, p: [0; 4] }, || Ok(vec![SFMask::read().bits()]));
        for v in subsets(r, rfmask).into_iter().step_by(4) {
            call(out, Call { api: "SFMask::write", reg: Reg::Msr(SFMASK), pre, mask: rfmask, p: [v, 0, 0, 0] }, || {
                SFMask::write(RFlags::from_bits_retain(v));
                Ok(vec![])
            });
        }
        let (st, cl) = (r.next() & rfmask, r.next() & rfmask);
        call(out, Call { api: "SFMask::update", reg: Reg::Msr(SFMASK), pre, mask: rfmask, p: [st, cl, 0, 0] }, || {
            let mut seen = 0;
            SFMask::update(|f| {
                seen = f.bits();
                f.insert(RFlags::from_bits_retain(st));
                f.remove(RFlags::from_bits_retain(cl));
            });
            Ok(vec![seen])
        });
    }

    // CET
    let cetmask = CetFlags::all().bits();
    macro_rules! cet {
        ($T:ident, $idx:expr, $name:literal) => {
            for _ in 0..40 {
                let page = canon(any64(r, &lat)) & !0xfff;
                let pre = page | (r.next() & 0xfff);
                call(out, Call { api: concat!($name, "::read"), reg: Reg::Msr($idx), pre, mask: cetmask, p: [0; 4] }, || {
                    let (f, p) = $T::read();
                    Ok(vec![f.bits(), p.start_address().as_u64()])
                });
                let np = canon(any64(r, &lat)) & !0xfff;
                let fl = r.next() & cetmask;
                call(out, Call { api: concat!($name, "::write"), reg: Reg::Msr($idx), pre, mask: cetmask, p: [fl, np, 0, 0] }, || {
                    $T::write(CetFlags::from_bits_retain(fl), Page::containing_address(vaddr(np)));
                    Ok(vec![])
                });
                call(out, Call { api: concat!($name, "::update"), reg: Reg::Msr($idx), pre, mask: cetmask, p: [fl, np, 0, 0] }, || {
                    let mut seen = vec![];
                    $T::update(|f, p| {
                        seen = vec![f.bits(), p.start_address().as_u64()];
                        *f = CetFlags::from_bits_retain(fl);
                        *p = Page::containing_address(vaddr(np));
                    });
                    Ok(seen)
                });
            }
        };
    }
    cet!(UCet, UCET, "UCet");
    cet!(SCet, SCET, "SCet");

    // PAT: tables over the six valid encodings
    let enc: [u8; 6] = [0, 1, 4, 5, 6, 7];
    for k in 0..80u64 {
        let mut tb = [0u8; 8];
        for (i, t) in tb.iter_mut().enumerate() {
            *t = if k < 6 { enc[((k as usize) + i) % 6] } else { *r.pick(&enc) };
        }
        let pre = u64::from_le_bytes(tb);
        call(out, Call { api: "Pat::read", reg: Reg::Msr(PAT), pre, mask: 0, p: [0; 4] }, || {
            let t = Pat::read();
            let mut b = [0u8; 8];
            for i in 0..8 {
                b[i] = t[i].bits();
            }
            Ok(vec![u64::from_le_bytes(b)])
        });
        let mut nb = [0u8; 8];
        for t in nb.iter_mut() {
            *t = *r.pick(&enc);
        }
        let nv = u64::from_le_bytes(nb);
        call(out, Call { api: "Pat::write", reg: Reg::Msr(PAT), pre, mask: 0, p: [nv, 0, 0, 0] }, || {
            let mut t = [PatMemoryType::WriteBack; 8];
            for i in 0..8 {
                t[i] = PatMemoryType::from_bits(nb[i]).unwrap();
            }
            unsafe { Pat::write(t) };
            Ok(vec![])
        });
    }
    {
        let d = Pat::DEFAULT;
        let mut b = [0u8; 8];
        for i in 0..8 {
            b[i] = d[i].bits();
        }
        out.emit(Ev::new("pat_default").w("v", u64::from_le_bytes(b)));
    }

    // APIC base
    let apmask = ApicBaseFlags::all().bits();
    for &f in &frames {
        for low in [0u64, apmask, 0x100, 0x800, 0xc00, 0xfff, 0x6ff] {
            let pre = f | low | if r.chance(1, 3) { 0xfff0_0000_0000_0000 } else { 0 };
            call(out, Call { api: "ApicBase::read", reg: Reg::Msr(APIC), pre, mask: apmask, p: [0; 4] }, || {
                let (fr, fl) = ApicBase::read();
                Ok(vec![fr.start_address().as_u64(), fl.bits()])
            });
            call(out, Call { api: "ApicBase::read_raw", reg: Reg::Msr(APIC), pre, mask: apmask, p: [0; 4] }, || {
                let (fr, fl) = ApicBase::read_raw();
                Ok(vec![fr.start_address().as_u64(), fl])
            });
            let nf = *r.pick(&frames);
            let fl = r.next() & apmask;
            call(out, Call { api: "ApicBase::write", reg: Reg::Msr(APIC), pre, mask: apmask, p: [nf, fl, 0, 0] }, || {
                unsafe { ApicBase::write(frame(nf), ApicBaseFlags::from_bits_retain(fl)) };
                Ok(vec![])
            });
            let rawf = r.next() & 0xfff;
            call(out, Call { api: "ApicBase::write_raw", reg: Reg::Msr(APIC), pre, mask: apmask, p: [nf, rawf, 0, 0] }, || {
                unsafe { ApicBase::write_raw(frame(nf), rawf) };
                Ok(vec![])
            });
        }
    }

    // XCR0: xgetbv runs natively, xsetbv traps
    let xmask = XCr0Flags::all().bits();
    let real = XCr0::read_raw();
    let mut xs: Vec<u64> = vec![1, 3, 7, 0x1f, 0xe7, 0xff, 0x2e7, 1 | (1 << 62), 0, 2, 5, 9, 0x11, 0x27, 0x67, 0xa7, 0x47];
    for _ in 0..60 {
        xs.push(r.next() & xmask);
    }
    for fl in xs {
        call(out, Call { api: "XCr0::write", reg: Reg::None, pre: real, mask: xmask, p: [fl, 0, 0, 0] }, || {
            unsafe { XCr0::write(XCr0Flags::from_bits_retain(fl)) };
            Ok(vec![])
        });
    }
    for _ in 0..10 {
        let v = r.next();
        call(out, Call { api: "XCr0::write_raw", reg: Reg::None, pre: real, mask: xmask, p: [v, 0, 0, 0] }, || {
            unsafe { XCr0::write_raw(v) };
            Ok(vec![])
        });
    }
    for (a, b) in [(0u64, 0u64), (real & xmask & 1, 0), (real & xmask, 0), (1, 0), (0, real & xmask & !7 & !(real & xmask & 0x60)), (real & xmask & 6, 0)] {
        // update = read (native xgetbv), closure, write (trapped xsetbv); results that are not a
        // valid XCR0 value are rejected by write
        call(out, Call { api: "XCr0::update", reg: Reg::None, pre: real, mask: xmask, p: [a, b, 0, 0] }, || {
            let mut seen = 0;
            unsafe {
                XCr0::update(|f| {
                    seen = f.bits();
                    f.insert(XCr0Flags::from_bits_retain(a));
                    f.remove(XCr0Flags::from_bits_retain(b));
                })
            };
            Ok(vec![seen])
        });
    }
    call(out, Call { api: "XCr0::read", reg: Reg::None, pre: real, mask: xmask, p: [0; 4] }, || Ok(vec![XCr0::read().bits()]));
    call(out, Call { api: "XCr0::read_raw", reg: Reg::None, pre: real, mask: xmask, p: [0; 4] }, || Ok(vec![XCr0::read_raw()]));

    // segment registers: selectors that cannot be loaded in a user process trap (#GP)
    for _ in 0..40 {
        let sel = (((16 + r.below(8000)) << 3) | r.below(4)) & 0xffff; // beyond Linux's GDT
        let s = SegmentSelector(sel as u16);
        for (name, which) in [("SS::set_reg", 2u64), ("DS::set_reg", 3), ("ES::set_reg", 0), ("FS::set_reg", 4), ("GS::set_reg", 5)] {
            call(out, Call { api: name, reg: Reg::None, pre: 0, mask: 0, p: [sel, which, 0, 0] }, || {
                unsafe {
                    match which {
                        2 => SS::set_reg(s),
                        3 => DS::set_reg(s),
                        0 => ES::set_reg(s),
                        4 => FS::set_reg(s),
                        _ => GS::set_reg(s),
                    }
                };
                Ok(vec![])
            });
        }
        call(out, Call { api: "CS::set_reg", reg: Reg::None, pre: 0, mask: 0, p: [sel, 1, 0, 0] }, || {
            unsafe { CS::set_reg(s) };
            Ok(vec![])
        });
        call(out, Call { api: "load_tss", reg: Reg::None, pre: 0, mask: 0, p: [sel, 0, 0, 0] }, || {
            unsafe { load_tss(s) };
            Ok(vec![])
        });
    }
    call(out, Call { api: "GS::swap", reg: Reg::None, pre: 0, mask: 0, p: [0; 4] }, || {
        unsafe { GS::swap() };
        Ok(vec![])
    });
    // get_reg runs natively: compare with an independent read
    macro_rules! getreg {
        ($T:ident, $name:literal, $asm:literal) => {{
            let ind: u16;
            unsafe { core::arch::asm!(concat!("mov {0:x}, ", $asm), out(reg) ind, options(nomem, nostack, preserves_flags)) };
            call(out, Call { api: concat!($name, "::get_reg"), reg: Reg::None, pre: ind as u64, mask: 0, p: [0; 4] }, || Ok(vec![$T::get_reg().0 as u64]));
        }};
    }
    getreg!(CS, "CS", "cs");
    getreg!(SS, "SS", "ss");
    getreg!(DS, "DS", "ds");
    getreg!(ES, "ES", "es");
    getreg!(FS, "FS", "fs");
    getreg!(GS, "GS", "gs");
    // FS/GS base run natively (CR4.FSGSBASE is set under Linux)
    for &a in lattice_canon().iter().step_by(9) {
        let a = if a >> 47 == 0 { a } else { a & 0x0000_7fff_ffff_ffff }; // user-space addresses only
        let old: u64;
        unsafe { core::arch::asm!("rdgsbase {}", out(reg) old, options(nomem, nostack, preserves_flags)) };
        let mut after = 0u64;
        call(out, Call { api: "GS::write_base", reg: Reg::None, pre: old, mask: 0, p: [a, 0, 0, 0] }, || {
            unsafe { GS::write_base(vaddr(a)) };
            unsafe { core::arch::asm!("rdgsbase {}", out(reg) after, options(nomem, nostack, preserves_flags)) };
            Ok(vec![after])
        });
        call(out, Call { api: "GS::read_base", reg: Reg::None, pre: a, mask: 0, p: [0; 4] }, || Ok(vec![GS::read_base().as_u64()]));
        unsafe { core::arch::asm!("wrgsbase {}", in(reg) old, options(nostack, preserves_flags)) };
    }
    for &a in [
        0xffff_ffff_8000_0000u64, 0xffff_ffff_ffff_f000, 0xffff_ffff_8123_4567, 0xffff_ffff_7fff_ffff, 0x8000_0000, 0xffff_ffff,
        0x7fff_ffff, 0x1_0000_0000, 0xffff_8000_0000_0000, 0xffff_fffe_ffff_ffff, 0xffff_ffff_ffff_ffff,
    ]
    .iter()
    {
        let old: u64;
        unsafe { core::arch::asm!("rdgsbase {}", out(reg) old, options(nomem, nostack, preserves_flags)) };
        let mut after = 0u64;
        call(out, Call { api: "GS::write_base", reg: Reg::None, pre: old, mask: 0, p: [a, 0, 0, 0] }, || {
            unsafe { GS::write_base(vaddr(a)) };
            unsafe { core::arch::asm!("rdgsbase {}", out(reg) after, options(nomem, nostack, preserves_flags)) };
            Ok(vec![after])
        });
        call(out, Call { api: "GS::read_base", reg: Reg::None, pre: a, mask: 0, p: [0; 4] }, || Ok(vec![GS::read_base().as_u64()]));
        unsafe { core::arch::asm!("wrgsbase {}", in(reg) old, options(nostack, preserves_flags)) };
        // FS base: thread-local storage hangs on it, so the other value is in place only between asm blocks
        let (after, seen) = fs_base_rt(a);
        call(out, Call { api: "FS::write_base", reg: Reg::None, pre: 0, mask: 0, p: [a, 0, 0, 0] }, || Ok(vec![after]));
        call(out, Call { api: "FS::read_base", reg: Reg::None, pre: a, mask: 0, p: [0; 4] }, || Ok(vec![seen]));
    }
    {
        let cur: u64 = native_u64(|| {
            let v: u64;
            unsafe { core::arch::asm!("rdfsbase {}", out(reg) v, options(nomem, nostack, preserves_flags)) };
            v
        });
        call(out, Call { api: "FS::read_base", reg: Reg::None, pre: cur, mask: 0, p: [0; 4] }, || Ok(vec![FS::read_base().as_u64()]));
        let mut after = 0u64;
        call(out, Call { api: "FS::write_base", reg: Reg::None, pre: cur, mask: 0, p: [cur, 0, 0, 0] }, || {
            unsafe { FS::write_base(vaddr(cur)) };
            unsafe { core::arch::asm!("rdfsbase {}", out(reg) after, options(nomem, nostack, preserves_flags)) };
            Ok(vec![after])
        });
    }
    // Segment64::BASE names the MSR of the base
    {
        let v = 0x0000_1234_5678_9000u64;
        cpu::msr_set(FSBASE, v);
        cpu::msr_set(GSBASE, v + 0x1000);
        cpu::drain();
        let a = unsafe { <FS as Segment64>::BASE.read() };
        let b = unsafe { <GS as Segment64>::BASE.read() };
        let ins = cpu::drain();
        out.emit(Ev::new("seg_base_msr").words("r", &[a, b]).words("want", &[v, v + 0x1000]).raw("instrs", &cpu::instrs_json(&ins)));
    }

    run_ctx(out, r, "regs");
    // RFLAGS and MXCSR run natively
    for _ in 0..20 {
        out.emit(Ev::new("rflags_rt").str("kind", "raw").words("r", &rflags_id_roundtrip()).w("mask", RFlags::all().bits()));
        out.emit(Ev::new("rflags_rt").str("kind", "typed").words("r", &rflags_typed_roundtrip()).w("mask", RFlags::all().bits()));
        out.emit(Ev::new("rflags_rt").str("kind", "update").words("r", &rflags_update_roundtrip()).w("mask", RFlags::all().bits()));
        let seed = r.next();
        out.emit(Ev::new("rflags_redzone").w("seed", seed).words("r", &rflags_redzone(seed)));
    }
    {
        use x86_64::registers::mxcsr::{self, MxCsr};
        let saved = mxcsr::read();
        let all = MxCsr::all().bits() as u64;
        for v in subsets(r, all & 0xffff) {
            // keep all exception masks set: an unmasked pending exception would raise SIGFPE
            let v = ((v as u32) & 0xe07f) | 0x1f80;
            mxcsr::write(MxCsr::from_bits_retain(v));
            let got = mxcsr::read().bits() as u64;
            let ind: u32 = {
                let mut m: u32 = 0;
                unsafe { core::arch::asm!("stmxcsr [{}]", in(reg) &mut m, options(nostack, preserves_flags)) };
                m
            };
            // the exception flags (bits 0-5) are sticky status bits; compare what was written
            out.emit(Ev::new("mxcsr_rt").w("v", v as u64).w("got", got).w("ind", ind as u64).w("mask", all));
            mxcsr::write(saved);
            // the same through update: the closure sees the current value, what it leaves is stored
            let mut seen = 0u32;
            mxcsr::update(|m| {
                seen = m.bits();
                *m = MxCsr::from_bits_retain(v);
            });
            let got2 = mxcsr::read().bits() as u64;
            out.emit(Ev::new("mxcsr_upd").w("v", v as u64).w("got", got2).w("seen", seen as u64).w("saved", saved.bits() as u64));
            mxcsr::write(saved);
        }
    }
}

// ------------------------------------------------------------------------------------------
// Calling-context probes (release builds matter): a wrapper inlined into a caller must leave
// the caller's live state alone - arithmetic flags that are still needed, values held in the
// argument registers (rdx, rcx, r8, r9), locals kept below the stack pointer (red zone) - and
// must hand the instruction exactly the operands it was given, also when it is called twice with
// the same value.  Every probe has six u64 arguments; operands come from the later ones.

macro_rules! ctx_probe {
    ($name:ident, |$c:ident, $d:ident, $e:ident, $f:ident| $body:block) => {
        #[inline(never)]
        fn $name(a: u64, b: u64, $c: u64, $d: u64, $e: u64, $f: u64) -> [u64; 4] {
            use std::ptr::{read_volatile, write_volatile};
            let mut scratch = [0u64; 12];
            for i in 0..12 {
                unsafe { write_volatile(&mut scratch[i], a.wrapping_add(i as u64)) };
            }
            let (s, carry) = a.overflowing_add(b);
            #[allow(unused_unsafe)]
            unsafe {
                $body
            }
            let r0 = s.wrapping_add(carry as u64);
            let mut sum = 0u64;
            for i in 0..12 {
                sum = sum.wrapping_add(unsafe { read_volatile(&scratch[i]) });
            }
            [r0, $c ^ $d, $e ^ $f, sum]
        }
    };
}

ctx_probe!(ctx_port_w32, |c, d, e, f| {
    x86_64::instructions::port::Port::<u32>::new(d as u16).write(c as u32);
    x86_64::instructions::port::Port::<u32>::new(f as u16).write(e as u32);
});
ctx_probe!(ctx_port_w16, |c, d, e, f| {
    x86_64::instructions::port::Port::<u16>::new(d as u16).write(c as u16);
    x86_64::instructions::port::PortWriteOnly::<u8>::new(f as u16).write(e as u8);
});
ctx_probe!(ctx_port_r, |c, d, e, f| {
    let x = x86_64::instructions::port::Port::<u16>::new(d as u16).read();
    let y = x86_64::instructions::port::Port::<u8>::new(f as u16).read();
    let z = x86_64::instructions::port::PortReadOnly::<u32>::new(c as u16).read();
    std::hint::black_box((x, y, z, e));
});
ctx_probe!(ctx_cr4_write, |c, d, e, f| {
    Cr4::write(Cr4Flags::from_bits_truncate(c));
    Cr0::write(Cr0Flags::from_bits_truncate(d));
    std::hint::black_box((e, f));
});
ctx_probe!(ctx_efer_update, |c, d, e, f| {
    Efer::update(|x| x.insert(EferFlags::from_bits_truncate(c)));
    Cr4::update(|x| x.remove(Cr4Flags::from_bits_truncate(d)));
    std::hint::black_box((e, f));
});
ctx_probe!(ctx_msr_twice, |c, d, e, f| {
    GsBase::write(VirtAddr::new_truncate(c));
    KernelGsBase::write(VirtAddr::new_truncate(c));
    LStar::write(VirtAddr::new_truncate(d));
    let v = Msr::new(0xc000_0103).read(); // IA32_TSC_AUX: any MSR read between writes
    std::hint::black_box((e, f, v));
});
ctx_probe!(ctx_dr_write, |c, d, e, f| {
    Dr0::write(c);
    let x = Dr1::read();
    Dr7::write_raw(d);
    std::hint::black_box((e, f, x));
});
ctx_probe!(ctx_wi, |c, d, e, f| {
    let (q, k) = x86_64::instructions::interrupts::without_interrupts(|| c.overflowing_add(d));
    std::hint::black_box((q.wrapping_add(k as u64), e, f));
});
ctx_probe!(ctx_cr4_carry, |c, d, e, f| {
    // a carry produced before a typed write and consumed after it
    let (s2, k2) = c.overflowing_add(d);
    Cr4::write(Cr4Flags::from_bits_truncate(e));
    Dr0::write(s2.wrapping_add(k2 as u64));
    std::hint::black_box(f);
});
ctx_probe!(ctx_wi_carry, |c, d, e, f| {
    // the closure's result includes a carry; the caller branches on it
    let (q, k) = x86_64::instructions::interrupts::without_interrupts(|| c.overflowing_add(d));
    if k {
        Dr1::write(q);
    } else {
        Dr0::write(q);
    }
    std::hint::black_box((e, f));
});
ctx_probe!(ctx_cs_twice, |c, d, e, f| {
    CS::set_reg(SegmentSelector(c as u16));
    CS::set_reg(SegmentSelector(c as u16));
    SS::set_reg(SegmentSelector(d as u16));
    std::hint::black_box((e, f));
});
ctx_probe!(ctx_xcr0, |c, d, e, f| {
    let x = XCr0::read_raw();
    std::hint::black_box((x, c, d, e, f));
});

ctx_probe!(ctx_tlb, |c, d, e, f| {
    use x86_64::instructions::tlb;
    tlb::flush(VirtAddr::new_truncate(c));
    tlb::flush(VirtAddr::new_truncate(d));
    tlb::flush_all();
    tlb::flush(VirtAddr::new_truncate(e));
    tlb::flush(VirtAddr::new_truncate(e));
    std::hint::black_box(f);
});
ctx_probe!(ctx_invpcid, |c, d, e, f| {
    use x86_64::instructions::tlb::{self, InvPcidCommand};
    tlb::flush_pcid(InvPcidCommand::Address(VirtAddr::new_truncate(c), Pcid::new((d & 0xfff) as u16).unwrap()));
    tlb::flush_pcid(InvPcidCommand::Single(Pcid::new((e & 0xfff) as u16).unwrap()));
    tlb::flush_pcid(InvPcidCommand::All);
    tlb::flush_pcid(InvPcidCommand::AllExceptGlobal);
    tlb::flush_pcid(InvPcidCommand::Single(Pcid::new((f & 0xfff) as u16).unwrap()));
});
ctx_probe!(ctx_tables, |c, d, e, f| {
    use x86_64::instructions::tables::{lgdt, lidt, sgdt, sidt};
    use x86_64::structures::DescriptorTablePointer;
    let g0 = sgdt();
    let p1 = DescriptorTablePointer { limit: c as u16, base: VirtAddr::new_truncate(d) };
    lgdt(&p1);
    let p2 = DescriptorTablePointer { limit: e as u16, base: VirtAddr::new_truncate(f) };
    lidt(&p2);
    let i0 = sidt();
    load_tss(SegmentSelector(c as u16));
    let (g1, i1) = (sgdt(), sidt());
    // the wrappers against hand-written reference stores
    let (mut rg, mut ri) = ([0u8; 16], [0u8; 16]);
    core::arch::asm!("sgdt [{}]", in(reg) rg.as_mut_ptr(), options(nostack, preserves_flags));
    core::arch::asm!("sidt [{}]", in(reg) ri.as_mut_ptr(), options(nostack, preserves_flags));
    let lim = |b: &[u8; 16]| u16::from_le_bytes([b[0], b[1]]);
    let bas = |b: &[u8; 16]| u64::from_le_bytes([b[2], b[3], b[4], b[5], b[6], b[7], b[8], b[9]]);
    assert!({ g1.limit } == lim(&rg) && { g1.base }.as_u64() == bas(&rg) && { i1.limit } == lim(&ri) && { i1.base }.as_u64() == bas(&ri));
    assert!({ g0.limit } == { g1.limit } && { g0.base } == { g1.base } && { i0.limit } == { i1.limit } && { i0.base } == { i1.base });
    // the same pointer loaded twice is loaded twice
    let p3 = DescriptorTablePointer { limit: e as u16, base: VirtAddr::new_truncate(f) };
    lgdt(&p3);
    lgdt(&p3);
});
ctx_probe!(ctx_segs, |c, d, e, f| {
    DS::set_reg(SegmentSelector(c as u16));
    ES::set_reg(SegmentSelector(d as u16));
    FS::set_reg(SegmentSelector(e as u16));
    GS::set_reg(SegmentSelector(f as u16));
    SS::set_reg(SegmentSelector(d as u16));
    let before = (DS::get_reg(), ES::get_reg(), SS::get_reg(), CS::get_reg());
    let after = (DS::get_reg(), ES::get_reg(), SS::get_reg(), CS::get_reg());
    assert!(before == after);
});
ctx_probe!(ctx_gsbase, |c, d, e, f| {
    let old = GS::read_base();
    GS::write_base(VirtAddr::new_truncate(c));
    let g1 = GS::read_base();
    GS::write_base(VirtAddr::new_truncate(d));
    let g2 = GS::read_base();
    GS::write_base(old);
    let g3 = GS::read_base();
    assert!(g1 == VirtAddr::new_truncate(c) && g2 == VirtAddr::new_truncate(d) && g3 == old);
    std::hint::black_box((e, f));
});
ctx_probe!(ctx_mxcsr, |c, d, e, f| {
    use x86_64::registers::mxcsr::{self, MxCsr};
    let masks = MxCsr::INVALID_OPERATION_MASK | MxCsr::DENORMAL_MASK | MxCsr::DIVIDE_BY_ZERO_MASK
        | MxCsr::OVERFLOW_MASK | MxCsr::UNDERFLOW_MASK | MxCsr::PRECISION_MASK;
    let saved = mxcsr::read();
    let v1 = MxCsr::from_bits_truncate(c as u32) | masks;
    let v2 = MxCsr::from_bits_truncate(d as u32) | masks;
    mxcsr::write(v1);
    let r1 = mxcsr::read();
    mxcsr::write(v2);
    let r2 = mxcsr::read();
    mxcsr::write(saved);
    let r3 = mxcsr::read();
    assert!(r1 == v1 && r2 == v2 && r3 == saved);
    std::hint::black_box((e, f));
});
ctx_probe!(ctx_rflags, |c, d, e, f| {
    // the ID flag is harmless in ring 3; arithmetic flags may differ between two reads
    const ARITH: u64 = 0x8d5;
    let id = RFlags::ID.bits();
    let f0 = rflags::read_raw();
    rflags::write_raw(f0 ^ id);
    let f1 = rflags::read_raw();
    rflags::write(RFlags::from_bits_truncate(f1) ^ RFlags::ID);
    let f2 = rflags::read();
    assert!((f0 ^ f1) & !ARITH == id && (f2.bits() ^ f0) & !ARITH & RFlags::all().bits() == 0);
    std::hint::black_box((c, d, e, f));
});

ctx_probe!(ctx_seg_rt, |c, d, e, f| {
    // selector reads around native loads: null selectors into GS, the user data selector and null into ES / DS
    let (g0, e0, d0) = (GS::get_reg(), ES::get_reg(), DS::get_reg());
    GS::set_reg(SegmentSelector(3));
    let g1 = GS::get_reg();
    ES::set_reg(SegmentSelector(0x2b));
    let e1 = ES::get_reg();
    DS::set_reg(SegmentSelector(0x2b));
    let d1 = DS::get_reg();
    GS::set_reg(SegmentSelector(0));
    let g2 = GS::get_reg();
    ES::set_reg(SegmentSelector(0));
    let e2 = ES::get_reg();
    DS::set_reg(SegmentSelector(0));
    let d2 = DS::get_reg();
    GS::set_reg(g0);
    ES::set_reg(e0);
    DS::set_reg(d0);
    assert!(g1.0 == 3 && e1.0 == 0x2b && d1.0 == 0x2b && g2.0 == 0 && e2.0 == 0 && d2.0 == 0);
    assert!(GS::get_reg() == g0 && ES::get_reg() == e0 && DS::get_reg() == d0);
    std::hint::black_box((c, d, e, f));
});

#[inline(never)]
fn fs_base_rt(a: u64) -> (u64, u64) {
    let (old, after): (u64, u64);
    unsafe {
        core::arch::asm!("rdfsbase {}", out(reg) old, options(nomem, nostack, preserves_flags));
        FS::write_base(VirtAddr::new_truncate(a));
        let seen = FS::read_base().as_u64();
        core::arch::asm!("rdfsbase {}", out(reg) after, options(nomem, nostack, preserves_flags));
        core::arch::asm!("wrfsbase {}", in(reg) old, options(nostack, preserves_flags));
        (after, seen)
    }
}

/// keeps a value alive in a register without giving it a stack slot (black_box would take one, and that slot would
/// be the one next to the stack pointer - exactly the one a wrongly `nostack` block overwrites)
trait Sk {
    fn sk(self);
}
impl Sk for u64 {
    #[inline(always)]
    fn sk(self) {
        unsafe { core::arch::asm!("/* {0} */", in(reg) self, options(nomem, nostack, preserves_flags)) }
    }
}
macro_rules! sk_as {
    ($t:ty, |$x:ident| $e:expr) => {
        impl Sk for $t {
            #[inline(always)]
            fn sk(self) {
                let $x = self;
                ($e as u64).sk()
            }
        }
    };
}
sk_as!(u32, |x| x);
sk_as!(u16, |x| x);
sk_as!(u8, |x| x);
sk_as!(bool, |x| x);
sk_as!(SegmentSelector, |x| x.0);
sk_as!(VirtAddr, |x| x.as_u64());
sk_as!(RFlags, |x| x.bits());
sk_as!(x86_64::structures::DescriptorTablePointer, |x| { x.limit });
sk_as!((PhysFrame, u16), |x| x.1);
impl<A: Sk, B: Sk> Sk for (A, B) {
    #[inline(always)]
    fn sk(self) {
        self.0.sk();
        self.1.sk();
    }
}
impl<A: Sk, B: Sk, C: Sk> Sk for (A, B, C) {
    #[inline(always)]
    fn sk(self) {
        self.0.sk();
        self.1.sk();
        self.2.sk();
    }
}
impl<A: Sk, B: Sk, C: Sk, D: Sk> Sk for (A, B, C, D) {
    #[inline(always)]
    fn sk(self) {
        self.0.sk();
        self.1.sk();
        self.2.sk();
        self.3.sk();
    }
}
#[inline(always)]
fn sk<T: Sk>(t: T) {
    t.sk()
}

/// Register-pressure probes: a leaf function that keeps 13 opaque values in registers (what does not fit is spilled
/// into the red zone) and 8 more in address-taken red-zone memory across ONE wrapper call; all 21 come back.
/// An undeclared clobber, a wrong `nostack` or a lost store of the wrapper's asm block changes one of them.
macro_rules! pressure_probe {
    ($name:ident, |$v:ident, $w:ident| $body:block) => {
        #[inline(never)]
        fn $name(src: &[u64; 16], $v: u64, $w: u64, out: &mut [u64; 21]) {
            use std::ptr::{read_volatile, write_volatile};
            let mut scratch = [0u64; 8];
            for i in 0..8 {
                unsafe { write_volatile(&mut scratch[i], src[i] ^ 0x5a5a) };
            }
            let x = unsafe {
                [
                    read_volatile(&src[0]), read_volatile(&src[1]), read_volatile(&src[2]), read_volatile(&src[3]),
                    read_volatile(&src[4]), read_volatile(&src[5]), read_volatile(&src[6]), read_volatile(&src[7]),
                    read_volatile(&src[8]), read_volatile(&src[9]), read_volatile(&src[10]), read_volatile(&src[11]),
                    read_volatile(&src[12]),
                ]
            };
            #[allow(unused_unsafe)]
            unsafe {
                $body
            }
            for i in 0..13 {
                unsafe { write_volatile(&mut out[i], x[i]) };
            }
            for i in 0..8 {
                unsafe { write_volatile(&mut out[13 + i], read_volatile(&scratch[i])) };
            }
        }
    };
}

pressure_probe!(pp_xcr0_write_raw, |v, w| { XCr0::write_raw(v); sk(w); });
pressure_probe!(pp_xcr0_read_raw, |v, w| { sk((XCr0::read_raw(), v, w)); });
pressure_probe!(pp_cs_reload, |v, w| { CS::set_reg(CS::get_reg()); sk((v, w)); });
pressure_probe!(pp_cs_set, |v, w| { CS::set_reg(SegmentSelector(v as u16)); sk(w); });
pressure_probe!(pp_ds_set, |v, w| { DS::set_reg(SegmentSelector(v as u16)); sk(w); });
pressure_probe!(pp_seg_get, |v, w| { sk((SS::get_reg(), GS::get_reg(), v, w)); });
pressure_probe!(pp_gs_base, |v, w| { let o = GS::read_base(); GS::write_base(VirtAddr::new_truncate(v)); GS::write_base(o); sk(w); });
pressure_probe!(pp_swapgs, |v, w| { GS::swap(); sk((v, w)); });
pressure_probe!(pp_load_tss, |v, w| { load_tss(SegmentSelector(v as u16)); sk(w); });
pressure_probe!(pp_lgdt, |v, w| {
    let p = x86_64::structures::DescriptorTablePointer { limit: w as u16, base: VirtAddr::new_truncate(v) };
    x86_64::instructions::tables::lgdt(&p);
});
pressure_probe!(pp_lidt, |v, w| {
    let p = x86_64::structures::DescriptorTablePointer { limit: w as u16, base: VirtAddr::new_truncate(v) };
    x86_64::instructions::tables::lidt(&p);
});
pressure_probe!(pp_sgdt, |v, w| { sk((x86_64::instructions::tables::sgdt(), v, w)); });
pressure_probe!(pp_sidt, |v, w| { sk((x86_64::instructions::tables::sidt(), v, w)); });
pressure_probe!(pp_msr_write, |v, w| { Msr::new(0xc000_0000 | (w as u32 & 0xff)).write(v); });
pressure_probe!(pp_msr_read, |v, w| { sk((Msr::new(0xc000_0000 | (w as u32 & 0xff)).read(), v)); });
pressure_probe!(pp_cr0_write_raw, |v, w| { Cr0::write_raw(v); sk(w); });
pressure_probe!(pp_cr4_write_raw, |v, w| { Cr4::write_raw(v); sk(w); });
pressure_probe!(pp_cr4_write, |v, w| { Cr4::write(Cr4Flags::from_bits_truncate(v)); sk(w); });
pressure_probe!(pp_cr2_rw, |v, w| { sk((Cr2::read_raw(), v, w)); });
pressure_probe!(pp_cr3_read, |v, w| { sk((Cr3::read_raw(), v, w)); });
pressure_probe!(pp_dr_rw, |v, w| { Dr1::write(v); sk((Dr1::read(), Dr6::read_raw(), w)); });
pressure_probe!(pp_dr7, |v, w| { Dr7::write_raw(v); sk((Dr7::read_raw(), w)); });
pressure_probe!(pp_port_w8, |v, w| { x86_64::instructions::port::Port::<u8>::new(w as u16).write(v as u8); });
pressure_probe!(pp_port_w16, |v, w| { x86_64::instructions::port::Port::<u16>::new(w as u16).write(v as u16); });
pressure_probe!(pp_port_w32, |v, w| { x86_64::instructions::port::Port::<u32>::new(w as u16).write(v as u32); });
pressure_probe!(pp_port_r8, |v, w| { sk((x86_64::instructions::port::Port::<u8>::new(w as u16).read(), v)); });
pressure_probe!(pp_port_r16, |v, w| { sk((x86_64::instructions::port::Port::<u16>::new(w as u16).read(), v)); });
pressure_probe!(pp_port_r32, |v, w| { sk((x86_64::instructions::port::Port::<u32>::new(w as u16).read(), v)); });
pressure_probe!(pp_invlpg, |v, w| { x86_64::instructions::tlb::flush(VirtAddr::new_truncate(v)); sk(w); });
pressure_probe!(pp_flush_all, |v, w| { x86_64::instructions::tlb::flush_all(); sk((v, w)); });
pressure_probe!(pp_invpcid_addr, |v, w| {
    use x86_64::instructions::tlb::{flush_pcid, InvPcidCommand};
    flush_pcid(InvPcidCommand::Address(VirtAddr::new_truncate(v), Pcid::new((w & 0xfff) as u16).unwrap()));
});
pressure_probe!(pp_invpcid_single, |v, w| {
    use x86_64::instructions::tlb::{flush_pcid, InvPcidCommand};
    flush_pcid(InvPcidCommand::Single(Pcid::new((w & 0xfff) as u16).unwrap()));
    sk(v);
});
pressure_probe!(pp_invpcid_all, |v, w| {
    use x86_64::instructions::tlb::{flush_pcid, InvPcidCommand};
    flush_pcid(if v & 1 == 0 { InvPcidCommand::All } else { InvPcidCommand::AllExceptGlobal });
    sk(w);
});
pressure_probe!(pp_enable, |v, w| { x86_64::instructions::interrupts::enable(); sk((v, w)); });
pressure_probe!(pp_disable, |v, w| { x86_64::instructions::interrupts::disable(); sk((v, w)); });
pressure_probe!(pp_are_enabled, |v, w| { sk((x86_64::instructions::interrupts::are_enabled(), v, w)); });
pressure_probe!(pp_wi, |v, w| { sk(x86_64::instructions::interrupts::without_interrupts(|| v.wrapping_add(w))); });
pressure_probe!(pp_enable_hlt, |v, w| { x86_64::instructions::interrupts::enable_and_hlt(); sk((v, w)); });
pressure_probe!(pp_hlt_nop, |v, w| { x86_64::instructions::hlt(); x86_64::instructions::nop(); sk((v, w)); });
pressure_probe!(pp_rflags, |v, w| { let f = rflags::read_raw(); rflags::write_raw(f); sk((rflags::read(), v, w)); });
pressure_probe!(pp_mxcsr, |v, w| { let m = x86_64::registers::mxcsr::read(); x86_64::registers::mxcsr::write(m); sk((v, w)); });

pressure_probe!(pp_dr7_write, |v, w| { Dr7::write(Dr7Value::from_bits_truncate(v)); sk(w); });
pressure_probe!(pp_dr7_update, |v, w| { Dr7::update(|x| *x = Dr7Value::from_bits_truncate(v)); sk(w); });
pressure_probe!(pp_cr0_write, |v, w| { Cr0::write(Cr0Flags::from_bits_truncate(v)); sk(w); });
pressure_probe!(pp_cr0_update, |v, w| { Cr0::update(|x| *x = Cr0Flags::from_bits_truncate(v)); sk(w); });
pressure_probe!(pp_cr4_update, |v, w| { Cr4::update(|x| *x = Cr4Flags::from_bits_truncate(v)); sk(w); });
pressure_probe!(pp_efer_write, |v, w| { Efer::write(EferFlags::from_bits_truncate(v)); sk(w); });
pressure_probe!(pp_efer_update, |v, w| { Efer::update(|x| *x = EferFlags::from_bits_truncate(v)); sk(w); });
pressure_probe!(pp_lstar_write, |v, w| { LStar::write(VirtAddr::new_truncate(v)); sk((LStar::read(), w)); });
pressure_probe!(pp_sfmask, |v, w| { SFMask::write(RFlags::from_bits_truncate(v)); SFMask::update(|x| *x |= RFlags::from_bits_truncate(w)); });
pressure_probe!(pp_kgsbase, |v, w| { KernelGsBase::write(VirtAddr::new_truncate(v)); sk((KernelGsBase::read(), w)); });
pressure_probe!(pp_xcr0_write, |v, w| {
    // a combination XCr0::write accepts: x87 | SSE | AVX, further bits from v only if they form a valid set
    let fl = XCr0Flags::X87 | XCr0Flags::SSE | if v & 1 == 0 { XCr0Flags::AVX } else { XCr0Flags::empty() };
    XCr0::write(fl);
    sk(w);
});
// narrow arguments taken from the low part of a register whose upper bits hold other data
pressure_probe!(pp_cr3_write_raw, |v, w| {
    Cr3::write_raw(PhysFrame::<Size4KiB>::containing_address(PhysAddr::new_truncate(v)), w as u16);
});
pressure_probe!(pp_cr3_write_pcid, |v, w| {
    Cr3::write_pcid(PhysFrame::<Size4KiB>::containing_address(PhysAddr::new_truncate(v)), Pcid::new((w as u16) & 0xfff).unwrap());
});
pressure_probe!(pp_star_raw, |v, w| { Star::write_raw(v as u16, w as u16); });

type PP = fn(&[u64; 16], u64, u64, &mut [u64; 21]);
/// (name, group, probe)
const PRESSURE: [(&str, &str, PP); 56] = [
    ("dr7_write", "regs", pp_dr7_write),
    ("dr7_update", "regs", pp_dr7_update),
    ("cr0_write", "regs", pp_cr0_write),
    ("cr0_update", "regs", pp_cr0_update),
    ("cr4_update", "regs", pp_cr4_update),
    ("efer_write", "regs", pp_efer_write),
    ("efer_update", "regs", pp_efer_update),
    ("lstar_write", "regs", pp_lstar_write),
    ("sfmask", "regs", pp_sfmask),
    ("kgsbase", "regs", pp_kgsbase),
    ("xcr0_write", "regs", pp_xcr0_write),
    ("cr3_write_raw", "regs", pp_cr3_write_raw),
    ("cr3_write_pcid", "regs", pp_cr3_write_pcid),
    ("star_raw", "regs", pp_star_raw),
    ("xcr0_write_raw", "regs", pp_xcr0_write_raw),
    ("xcr0_read_raw", "regs", pp_xcr0_read_raw),
    ("cs_reload", "regs", pp_cs_reload),
    ("cs_set", "regs", pp_cs_set),
    ("ds_set", "regs", pp_ds_set),
    ("seg_get", "regs", pp_seg_get),
    ("gs_base", "regs", pp_gs_base),
    ("swapgs", "regs", pp_swapgs),
    ("load_tss", "regs", pp_load_tss),
    ("lgdt", "tables", pp_lgdt),
    ("lidt", "tables", pp_lidt),
    ("sgdt", "tables", pp_sgdt),
    ("sidt", "tables", pp_sidt),
    ("msr_write", "regs", pp_msr_write),
    ("msr_read", "regs", pp_msr_read),
    ("cr0_write_raw", "regs", pp_cr0_write_raw),
    ("cr4_write_raw", "regs", pp_cr4_write_raw),
    ("cr4_write", "regs", pp_cr4_write),
    ("cr2_rw", "regs", pp_cr2_rw),
    ("cr3_read", "regs", pp_cr3_read),
    ("dr_rw", "regs", pp_dr_rw),
    ("dr7", "regs", pp_dr7),
    ("port_w8", "ports", pp_port_w8),
    ("port_w16", "ports", pp_port_w16),
    ("port_w32", "ports", pp_port_w32),
    ("port_r8", "ports", pp_port_r8),
    ("port_r16", "ports", pp_port_r16),
    ("port_r32", "ports", pp_port_r32),
    ("invlpg", "tlb", pp_invlpg),
    ("flush_all", "tlb", pp_flush_all),
    ("invpcid_addr", "tlb", pp_invpcid_addr),
    ("invpcid_single", "tlb", pp_invpcid_single),
    ("invpcid_all", "tlb", pp_invpcid_all),
    ("enable", "intr", pp_enable),
    ("disable", "intr", pp_disable),
    ("are_enabled", "intr", pp_are_enabled),
    ("wi", "intr", pp_wi),
    ("enable_hlt", "intr", pp_enable_hlt),
    ("hlt_nop", "intr", pp_hlt_nop),
    ("rflags", "intr", pp_rflags),
    ("mxcsr", "regs", pp_mxcsr),
    ("cs_reload2", "regs", pp_cs_reload),
];

/// read; write; read of one register inside one function: the second read must see what the write stored (an asm read
/// block that is wrongly `pure` is merged with the first one in optimised builds)
macro_rules! rwr {
    ($out:expr, $name:expr, $reg:expr, $p:expr, $x:expr, |$v:ident| $wr:expr, $rd:expr) => {{
        #[inline(never)]
        #[allow(unused_unsafe)]
        fn go($v: u64) -> (u64, u64) {
            unsafe {
                let r1: u64 = $rd;
                $wr;
                let r2: u64 = $rd;
                (r1, r2)
            }
        }
        let (p, x): (u64, u64) = ($p, $x);
        set($reg, p);
        cpu::drain();
        let got = catch(|| go(x));
        cpu::drain();
        let (r1, r2) = got.unwrap_or((0, 0));
        $out.emit(Ev::new("rwr").str("name", $name).w("p", p).w("x", x).str("k", if got.is_some() { "ok" } else { "panic" }).words("r", &[r1, r2]));
    }};
}

/// the hardware (here: the emulated CPU, poked from outside the function) changes a register between two reads of
/// one function: page fault -> CR2, debug exception -> DR6, another agent -> any register
#[inline(never)]
fn poke(reg: Reg, v: u64) {
    set(reg, v)
}
macro_rules! rxr {
    ($out:expr, $name:expr, $reg:expr, $p:expr, $x:expr, $rd:expr) => {{
        #[inline(never)]
        #[allow(unused_unsafe)]
        fn go(x: u64) -> (u64, u64) {
            unsafe {
                let r1: u64 = $rd;
                poke($reg, x);
                let r2: u64 = $rd;
                (r1, r2)
            }
        }
        let (p, x): (u64, u64) = ($p, $x);
        set($reg, p);
        cpu::drain();
        let got = catch(|| go(x));
        cpu::drain();
        let (r1, r2) = got.unwrap_or((0, 0));
        $out.emit(Ev::new("rwr").str("name", $name).w("p", p).w("x", x).str("k", if got.is_some() { "ok" } else { "panic" }).words("r", &[r1, r2]));
    }};
}

fn run_rxr(out: &mut Out, r: &mut Rng) {
    for _k in 0..4 {
        let ca = |r: &mut Rng| VirtAddr::new_truncate(r.next()).as_u64();
        rxr!(out, "x Cr0", Reg::Cr(0), r.next(), r.next(), Cr0::read_raw());
        rxr!(out, "x Cr2 raw", Reg::Cr(2), r.next(), r.next(), Cr2::read_raw());
        rxr!(out, "x Cr2", Reg::Cr(2), ca(r), ca(r), Cr2::read().map(|a| a.as_u64()).unwrap_or(1));
        rxr!(out, "x Cr3", Reg::Cr(3), r.next() & 0x000f_ffff_ffff_f000, r.next() & 0x000f_ffff_ffff_f000, Cr3::read_raw().0.start_address().as_u64());
        rxr!(out, "x Cr4", Reg::Cr(4), r.next(), r.next(), Cr4::read_raw());
        rxr!(out, "x Dr0", Reg::Dr(0), r.next(), r.next(), Dr0::read());
        rxr!(out, "x Dr6", Reg::Dr(6), r.next(), r.next(), Dr6::read_raw());
        rxr!(out, "x Dr6 typed", Reg::Dr(6), Dr6Flags::from_bits_truncate(r.next()).bits(), Dr6Flags::from_bits_truncate(r.next()).bits(), Dr6::read().bits());
        rxr!(out, "x Dr7", Reg::Dr(7), r.next(), r.next(), Dr7::read_raw());
        rxr!(out, "x Efer", Reg::Msr(EFER), r.next(), r.next(), Efer::read_raw());
        rxr!(out, "x FsBase", Reg::Msr(FSBASE), ca(r), ca(r), FsBase::read().as_u64());
        rxr!(out, "x GsBase", Reg::Msr(GSBASE), ca(r), ca(r), GsBase::read().as_u64());
        rxr!(out, "x KernelGsBase", Reg::Msr(KGSBASE), ca(r), ca(r), KernelGsBase::read().as_u64());
        rxr!(out, "x LStar", Reg::Msr(LSTAR), ca(r), ca(r), LStar::read().as_u64());
        rxr!(out, "x SFMask", Reg::Msr(SFMASK), RFlags::from_bits_truncate(r.next()).bits(), RFlags::from_bits_truncate(r.next()).bits(), SFMask::read().bits());
        rxr!(out, "x Msr", Reg::Msr(0xc000_0103), r.next(), r.next(), Msr::new(0xc000_0103).read());
    }
}

fn run_rwr(out: &mut Out, r: &mut Rng) {
    run_rxr(out, r);
    for _k in 0..4 {
        let ca = |r: &mut Rng| VirtAddr::new_truncate(r.next()).as_u64();
        rwr!(out, "Cr0", Reg::Cr(0), Cr0Flags::from_bits_truncate(r.next()).bits(), Cr0Flags::from_bits_truncate(r.next()).bits(),
            |v| Cr0::write(Cr0Flags::from_bits_truncate(v)), Cr0::read().bits());
        rwr!(out, "Cr0 raw", Reg::Cr(0), r.next(), r.next(), |v| Cr0::write_raw(v), Cr0::read_raw());
        rwr!(out, "Cr4", Reg::Cr(4), Cr4Flags::from_bits_truncate(r.next()).bits(), Cr4Flags::from_bits_truncate(r.next()).bits(),
            |v| Cr4::write(Cr4Flags::from_bits_truncate(v)), Cr4::read().bits());
        rwr!(out, "Cr4 raw", Reg::Cr(4), r.next(), r.next(), |v| Cr4::write_raw(v), Cr4::read_raw());
        rwr!(out, "Dr1", Reg::Dr(1), r.next(), r.next(), |v| Dr1::write(v), Dr1::read());
        rwr!(out, "Dr2", Reg::Dr(2), r.next(), r.next(), |v| Dr2::write(v), Dr2::read());
        rwr!(out, "Dr3", Reg::Dr(3), r.next(), r.next(), |v| Dr3::write(v), Dr3::read());
        rwr!(out, "Dr7 raw", Reg::Dr(7), r.next(), r.next(), |v| Dr7::write_raw(v), Dr7::read_raw());
        rwr!(out, "Efer", Reg::Msr(EFER), EferFlags::from_bits_truncate(r.next()).bits(), EferFlags::from_bits_truncate(r.next()).bits(),
            |v| Efer::write(EferFlags::from_bits_truncate(v)), Efer::read().bits());
        rwr!(out, "Efer raw", Reg::Msr(EFER), r.next(), r.next(), |v| Efer::write_raw(v), Efer::read_raw());
        rwr!(out, "FsBase", Reg::Msr(FSBASE), ca(r), ca(r), |v| FsBase::write(VirtAddr::new_truncate(v)), FsBase::read().as_u64());
        rwr!(out, "GsBase", Reg::Msr(GSBASE), ca(r), ca(r), |v| GsBase::write(VirtAddr::new_truncate(v)), GsBase::read().as_u64());
        rwr!(out, "KernelGsBase", Reg::Msr(KGSBASE), ca(r), ca(r), |v| KernelGsBase::write(VirtAddr::new_truncate(v)), KernelGsBase::read().as_u64());
        rwr!(out, "LStar", Reg::Msr(LSTAR), ca(r), ca(r), |v| LStar::write(VirtAddr::new_truncate(v)), LStar::read().as_u64());
        rwr!(out, "SFMask", Reg::Msr(SFMASK), RFlags::from_bits_truncate(r.next()).bits(), RFlags::from_bits_truncate(r.next()).bits(),
            |v| SFMask::write(RFlags::from_bits_truncate(v)), SFMask::read().bits());
        rwr!(out, "Msr", Reg::Msr(0xc000_0103), r.next(), r.next(), |v| Msr::new(0xc000_0103).write(v), Msr::new(0xc000_0103).read());
    }
}

fn run_pressure(out: &mut Out, r: &mut Rng, only: &str) {
    if matches!(only, "" | "regs") {
        run_rwr(out, r);
    }
    for (name, group, p) in PRESSURE.iter() {
        if !(only.is_empty() || only == *group) {
            continue;
        }
        for _k in 0..3 {
            let mut src = [0u64; 16];
            for x in src.iter_mut() {
                *x = r.next() | 1;
            }
            let sel = ((20 + r.below(4000)) << 3) & 0xffff;
            let (v, w) = match *name {
                // 16-bit arguments arrive as the low part of a full register
                "cs_set" | "ds_set" | "load_tss" => (sel | (r.next() << 16), r.next()),
                "port_w8" | "port_w16" | "port_w32" | "port_r8" | "port_r16" | "port_r32" => (r.next(), (0x6000 + r.below(0x1000)) | (r.next() << 16)),
                "cr3_write_raw" | "cr3_write_pcid" => (r.next() & 0x000f_ffff_ffff_f000, r.next()),
                _ => (r.next(), r.next()),
            };
            set(Reg::Cr(4), 0);
            set(Reg::Cr(0), 0);
            set(Reg::Cr(3), 0x1234_5005);
            cpu::IF.store(1, std::sync::atomic::Ordering::SeqCst);
            x86_64::registers::rflags::VERIF_IF_OVERLAY.store(2, std::sync::atomic::Ordering::SeqCst);
            cpu::drain();
            let mut got = [0u64; 21];
            let ok = catch(|| p(&src, v, w, &mut got)).is_some();
            x86_64::registers::rflags::VERIF_IF_OVERLAY.store(0, std::sync::atomic::Ordering::SeqCst);
            let ins = cpu::drain();
            out.emit(
                Ev::new("pressure")
                    .str("name", name)
                    .words("src", &src)
                    .w("v", v)
                    .w("w", w)
                    .str("k", if ok { "ok" } else { "panic" })
                    .words("got", &got)
                    .raw("instrs", &cpu::instrs_json(&ins)),
            );
        }
    }
}

/// lean shapes (no other live state): a carry across a typed CR4 write; a closure's carry
#[inline(never)]
pub extern "C" fn lean_cr4_carry(base: u64, offset: u64, cr4: u64) {
    let (sum, carry) = base.overflowing_add(offset);
    unsafe { Cr4::write(Cr4Flags::from_bits_truncate(cr4)) };
    Dr0::write(sum.wrapping_add(carry as u64));
}
#[inline(never)]
fn lean_wi_carry(counter: &mut u64, by: u64, wraps: &mut u32) {
    let (sum, carry) = x86_64::instructions::interrupts::without_interrupts(|| counter.overflowing_add(by));
    *counter = sum;
    if carry {
        *wraps += 1;
    }
}
/// the closure publishes its sum (volatile) inside the critical section and returns only the carry
#[inline(never)]
fn lean_wi_carry_v(counter: &mut u64, by: u64, wraps: &mut u32) {
    let carry = x86_64::instructions::interrupts::without_interrupts(|| {
        let (sum, carry) = counter.overflowing_add(by);
        unsafe { core::ptr::write_volatile(counter, sum) };
        carry
    });
    if carry {
        *wraps += 1;
    }
}
/// a TSS descriptor is stored into the GDT right before `load_tss` and read back after it: `ltr` sets its busy bit
#[inline(never)]
fn lean_ltr_busy(gdt: *mut u64, lo: u64, hi: u64) -> (u64, u64) {
    // (a raw pointer: the table is shared with the processor, a `&mut` would promise that nothing else touches it)
    unsafe {
        *gdt.add(3) = lo;
        *gdt.add(4) = hi;
        load_tss(SegmentSelector(3 << 3));
        (*gdt.add(3), *gdt.add(4))
    }
}
#[inline(never)]
pub extern "C" fn lean_port_w32(_x: u64, _y: u64, value: u32, port: u16) {
    unsafe { x86_64::instructions::port::Port::<u32>::new(port).write(value) };
}

pub fn run_ctx(out: &mut Out, r: &mut Rng, only: &str) {
    let sel = |name: &str| -> bool {
        match only {
            "" => true,
            "tlb" => matches!(name, "tlb" | "invpcid"),
            "tables" => matches!(name, "tables"),
            "regs" => !name.starts_with("port") && !name.starts_with("wi") && !matches!(name, "tlb" | "invpcid"),
            "intr" => name.starts_with("wi") || name == "rflags",
            "ports" => name.starts_with("port"),
            _ => true,
        }
    };
    for k in 0..8u64 {
        let (l_regs, l_intr, l_ports) = (matches!(only, "" | "regs"), matches!(only, "" | "intr"), matches!(only, "" | "ports"));
        let base = if k % 2 == 0 { u64::MAX - r.below(100) } else { r.below(1 << 50) };
        let off = 1 + r.below(1000);
        let cr4 = r.next();
        set(Reg::Cr(4), 0);
        cpu::drain();
        let ok = !l_regs || catch(|| lean_cr4_carry(base, off, cr4)).is_some();
        let ins = cpu::drain();
        if l_regs {
        out.emit(Ev::new("lean").str("name", "cr4_carry").words("args", &[base, off, cr4]).str("k", if ok { "ok" } else { "panic" }).words("got", &[0, 0]).raw("instrs", &cpu::instrs_json(&ins)));
        }
        if l_regs {
            // an available 64-bit TSS descriptor (type 9, present) with random base / limit bits
            let lo = (r.next() & !(0x1f << 40)) | (9 << 40) | (1 << 47);
            let hi = r.next() & 0xffff_ffff;
            let mut gdt = Box::new([0u64; 8]);
            let ptr = x86_64::structures::DescriptorTablePointer { limit: 63, base: VirtAddr::new(gdt.as_ptr() as u64) };
            unsafe { x86_64::instructions::tables::lgdt(&ptr) };
            cpu::drain();
            cpu::LTR_MARKS_BUSY.store(1, std::sync::atomic::Ordering::SeqCst);
            let gp = gdt.as_mut_ptr();
            let got = catch(|| lean_ltr_busy(gp, lo, hi));
            cpu::LTR_MARKS_BUSY.store(0, std::sync::atomic::Ordering::SeqCst);
            let ins = cpu::drain();
            let (g0, g1) = got.unwrap_or((0, 0));
            out.emit(Ev::new("lean").str("name", "ltr_busy").words("args", &[lo, hi, 0]).str("k", if got.is_some() { "ok" } else { "panic" }).words("got", &[g0, g1]).raw("instrs", &cpu::instrs_json(&ins)));
        }
        if l_intr {
        let (mut counter, mut wraps) = (base, 5u32);
        cpu::IF.store(1, std::sync::atomic::Ordering::SeqCst);
        x86_64::registers::rflags::VERIF_IF_OVERLAY.store(2, std::sync::atomic::Ordering::SeqCst);
        let ok = catch(|| lean_wi_carry(&mut counter, off, &mut wraps)).is_some();
        x86_64::registers::rflags::VERIF_IF_OVERLAY.store(0, std::sync::atomic::Ordering::SeqCst);
        cpu::drain();
        out.emit(Ev::new("lean").str("name", "wi_carry").words("args", &[base, off, 0]).str("k", if ok { "ok" } else { "panic" }).words("got", &[counter, wraps as u64]).raw("instrs", "[]"));
        let (mut counter, mut wraps) = (base, 5u32);
        x86_64::registers::rflags::VERIF_IF_OVERLAY.store(2, std::sync::atomic::Ordering::SeqCst);
        let ok = catch(|| lean_wi_carry_v(&mut counter, off, &mut wraps)).is_some();
        x86_64::registers::rflags::VERIF_IF_OVERLAY.store(0, std::sync::atomic::Ordering::SeqCst);
        cpu::drain();
        out.emit(Ev::new("lean").str("name", "wi_carry").words("args", &[base, off, 1]).str("k", if ok { "ok" } else { "panic" }).words("got", &[counter, wraps as u64]).raw("instrs", "[]"));
        }
        if !l_ports {
            continue;
        }
        let (v, p) = (r.next() as u32, (0x4000 + r.below(0x1000)) as u16);
        cpu::drain();
        let ok = catch(|| lean_port_w32(base, off, v, p)).is_some();
        let ins = cpu::drain();
        out.emit(Ev::new("lean").str("name", "port_w32").words("args", &[v as u64, p as u64, 0]).str("k", if ok { "ok" } else { "panic" }).words("got", &[0, 0]).raw("instrs", &cpu::instrs_json(&ins)));
    }
    type P = fn(u64, u64, u64, u64, u64, u64) -> [u64; 4];
    run_pressure(out, r, only);
    let probes: [(&str, P); 20] = [
        ("seg_rt", ctx_seg_rt),
        ("tlb", ctx_tlb),
        ("invpcid", ctx_invpcid),
        ("tables", ctx_tables),
        ("segs", ctx_segs),
        ("gsbase", ctx_gsbase),
        ("mxcsr", ctx_mxcsr),
        ("rflags", ctx_rflags),
        ("cr4_carry", ctx_cr4_carry),
        ("wi_carry", ctx_wi_carry),
        ("port_w32", ctx_port_w32),
        ("port_w16", ctx_port_w16),
        ("port_r", ctx_port_r),
        ("cr4_write", ctx_cr4_write),
        ("efer_update", ctx_efer_update),
        ("msr_twice", ctx_msr_twice),
        ("dr_write", ctx_dr_write),
        ("wi", ctx_wi),
        ("cs_twice", ctx_cs_twice),
        ("xcr0", ctx_xcr0),
    ];
    for (name, p) in probes.iter() {
        if !sel(name) {
            continue;
        }
        for k in 0..6u64 {
            // carry set / clear, operands with all halves populated
            let a = if k % 2 == 0 { u64::MAX - r.below(1000) } else { r.below(1 << 40) };
            let b = 1 + r.below(5000);
            let carry_cd = k % 3 != 0; // for the *_carry probes: c + d overflows in two of three cases
            let (c, d, e, f) = match *name {
                "port_w32" | "port_w16" | "port_r" => (r.next(), 0x3000 + r.below(0x1000), r.next(), 0x5000 + r.below(0x1000)),
                "cr4_carry" | "wi_carry" => {
                    let c = r.next() | (1 << 63);
                    let d = if carry_cd { (1u64 << 63) + r.below(1 << 40) } else { r.below(1 << 40) & !(1 << 63) & (!c) };
                    (c, d, r.next(), r.next())
                }
                "segs" | "tables" => {
                    let sl = |r: &mut Rng| ((20 + r.below(4000)) << 3) & 0xffff;
                    if *name == "segs" { (sl(r), sl(r), sl(r), sl(r)) } else { (sl(r), r.next(), r.next(), r.next()) }
                }
                "cs_twice" => (((20 + r.below(4000)) << 3) & 0xffff, ((20 + r.below(4000)) << 3) & 0xffff, r.next(), r.next()),
                _ => (r.next(), r.next(), r.next(), r.next()),
            };
            set(Reg::Cr(4), 0);
            set(Reg::Cr(0), 0);
            set(Reg::Cr(3), 0x1234_5005);
            set(Reg::Msr(EFER), 0);
            cpu::IF.store(1, std::sync::atomic::Ordering::SeqCst);
            x86_64::registers::rflags::VERIF_IF_OVERLAY.store(2, std::sync::atomic::Ordering::SeqCst);
            cpu::drain();
            let got = catch(|| p(a, b, c, d, e, f));
            x86_64::registers::rflags::VERIF_IF_OVERLAY.store(0, std::sync::atomic::Ordering::SeqCst);
            let ins = cpu::drain();
            out.emit(
                Ev::new("ctx")
                    .str("name", name)
                    .words("args", &[a, b, c, d, e, f])
                    .str("k", if got.is_some() { "ok" } else { "panic" })
                    .words("got", &got.unwrap_or([0; 4]))
                    .raw("instrs", &cpu::instrs_json(&ins)),
            );
        }
    }
}
