//! Signal-based observation of the code under test.
//!
//! * memory faults while a mapper call is running (a pointer into "physical memory" that has
//!   no backing store, e.g. a data frame dereferenced as a page table): the faulting page is
//!   logged and backed with a junk page so that the call can continue (`STRAY` mode);
//! * privileged instructions (#GP / #UD in ring 3): decoded, applied to an emulated register
//!   file, logged, and skipped (`EMU` mode, see cpu.rs);
//! * recursive page-table addresses: resolved by a software MMU over the simulated tables
//!   (`MMU` mode, see softmmu in pt.rs).
//!
//! Everything the handler touches is pre-allocated; it only performs async-signal-safe work.

use std::sync::atomic::{AtomicU64, AtomicUsize, Ordering};

pub const STRAY: u64 = 1;
pub const EMU: u64 = 2;
pub const MMU: u64 = 4;

pub static MODE: AtomicU64 = AtomicU64::new(0);

pub const MAXF: usize = 512;
#[allow(clippy::declare_interior_mutable_const)]
const Z: AtomicU64 = AtomicU64::new(0);
pub static FAULT_ADDR: [AtomicU64; MAXF] = [Z; MAXF];
pub static FAULT_RIP: [AtomicU64; MAXF] = [Z; MAXF];
pub static NFAULT: AtomicUsize = AtomicUsize::new(0);

/// hooks installed by other modules (plain function pointers stored as usize)
pub static EMU_HOOK: AtomicUsize = AtomicUsize::new(0);
pub static MMU_HOOK: AtomicUsize = AtomicUsize::new(0);

pub type EmuFn = unsafe fn(sig: i32, code: i32, addr: u64, uc: *mut libc::ucontext_t) -> bool;
pub type MmuFn = unsafe fn(addr: u64, rip: u64) -> bool;

unsafe fn hex(buf: &mut [u8; 20], mut v: u64) {
    buf[0] = b' ';
    buf[1] = b'0';
    buf[2] = b'x';
    for i in 0..16 {
        let d = ((v >> 60) & 0xf) as u8;
        buf[3 + i] = if d < 10 { b'0' + d } else { b'a' + d - 10 };
        v <<= 4;
    }
    buf[19] = b'\n';
}

unsafe fn die_info(sig: i32, code: i32, addr: u64, rip: u64) -> ! {
    let msg = b"xv: unexplained fault (sig, code, addr, rip):\n";
    libc::write(2, msg.as_ptr() as *const libc::c_void, msg.len());
    let mut b = [0u8; 20];
    for v in [sig as u64, code as u64, addr, rip] {
        hex(&mut b, v);
        libc::write(2, b.as_ptr() as *const libc::c_void, 20);
    }
    die(sig)
}

unsafe fn die(sig: i32) -> ! {
    // a fault we cannot explain: restore the default action and let it happen
    let mut sa: libc::sigaction = core::mem::zeroed();
    sa.sa_sigaction = libc::SIG_DFL;
    libc::sigaction(sig, &sa, core::ptr::null_mut());
    libc::raise(sig);
    libc::_exit(70)
}

unsafe extern "C" fn handler(sig: i32, info: *mut libc::siginfo_t, ctx: *mut libc::c_void) {
    let uc = ctx as *mut libc::ucontext_t;
    let rip = (*uc).uc_mcontext.gregs[libc::REG_RIP as usize] as u64;
    let code = (*info).si_code;
    let addr = (*info).si_addr() as u64;
    let mode = MODE.load(Ordering::Relaxed);
    let memfault = sig == libc::SIGSEGV && (code == 1 || code == 2);
    if memfault && mode & MMU != 0 {
        let h = MMU_HOOK.load(Ordering::Relaxed);
        if h != 0 {
            let f: MmuFn = core::mem::transmute(h);
            if f(addr, rip) {
                return;
            }
        }
    }
    if memfault && mode & STRAY != 0 && addr >= 0x1_0000 {
        let n = NFAULT.fetch_add(1, Ordering::Relaxed);
        if n < MAXF {
            FAULT_ADDR[n].store(addr, Ordering::Relaxed);
            FAULT_RIP[n].store(rip, Ordering::Relaxed);
        }
        // back the page with zeroes (an all-zero "table" ends any further walk)
        let page = addr & !0xfff;
        let p = libc::mmap(
            page as *mut libc::c_void,
            4096,
            libc::PROT_READ | libc::PROT_WRITE,
            libc::MAP_PRIVATE | libc::MAP_ANONYMOUS | libc::MAP_FIXED,
            -1,
            0,
        );
        if p as u64 == page {
            return;
        }
        die_info(sig, code, addr, rip);
    }
    if !memfault && mode & EMU != 0 {
        let h = EMU_HOOK.load(Ordering::Relaxed);
        if h != 0 {
            let f: EmuFn = core::mem::transmute(h);
            if f(sig, code, addr, uc) {
                return;
            }
        }
    }
    die_info(sig, code, addr, rip);
}

pub fn install() {
    unsafe {
        // alternate stack so that faults are handled even with a damaged stack pointer
        let ss_size = 1 << 18;
        let sp = libc::mmap(
            core::ptr::null_mut(),
            ss_size,
            libc::PROT_READ | libc::PROT_WRITE,
            libc::MAP_PRIVATE | libc::MAP_ANONYMOUS,
            -1,
            0,
        );
        let ss = libc::stack_t { ss_sp: sp, ss_flags: 0, ss_size };
        libc::sigaltstack(&ss, core::ptr::null_mut());
        let mut sa: libc::sigaction = core::mem::zeroed();
        sa.sa_sigaction = handler as usize;
        sa.sa_flags = libc::SA_SIGINFO | libc::SA_ONSTACK | libc::SA_NODEFER;
        libc::sigemptyset(&mut sa.sa_mask);
        libc::sigaction(libc::SIGSEGV, &sa, core::ptr::null_mut());
        libc::sigaction(libc::SIGILL, &sa, core::ptr::null_mut());
        libc::sigaction(libc::SIGBUS, &sa, core::ptr::null_mut());
    }
}

/// stray pages mapped since the last call; unmaps them
pub fn take_strays() -> Vec<(u64, u64)> {
    let n = NFAULT.swap(0, Ordering::Relaxed).min(MAXF);
    let mut v = Vec::new();
    for i in 0..n {
        let a = FAULT_ADDR[i].load(Ordering::Relaxed);
        v.push((a, FAULT_RIP[i].load(Ordering::Relaxed)));
        unsafe {
            libc::munmap((a & !0xfff) as *mut libc::c_void, 4096);
        }
    }
    v
}
