//! Signal-based observation of the code under test.
//!
//! * memory faults while a mapper call is running (a pointer into "physical memory" that has
//!   no backing store, e.g. a data frame dereferenced as a page table): the faulting page is
//!   logged and backed with a junk page so that the call can continue (`STRAY` mode);
//! * privileged instructions (#GP / #UD in ring 3): decoded, applied to an emulated register
//!   file, logged, and skipped (`EMU` mode, see cpu.rs);
//! * recursive page-table addresses: resolved by a software MMU over the simulated tables
//!   (`MMU` mode, see softmmu in pt.rs).
//!
//! Everything the handler touches is pre-allocated; it only performs async-signal-safe work.

use std::sync::atomic::{AtomicU64, AtomicUsize, Ordering};

pub const STRAY: u64 = 1;
pub const EMU: u64 = 2;
pub const MMU: u64 = 4;

pub static MODE: AtomicU64 = AtomicU64::new(0);

pub const MAXF: usize = 512;
#[allow(clippy::declare_interior_mutable_const)]
const Z: AtomicU64 = AtomicU64::new(0);
pub static FAULT_ADDR: [AtomicU64; MAXF] = [Z; MAXF];
pub static FAULT_RIP: [AtomicU64; MAXF] = [Z; MAXF];
pub static NFAULT: AtomicUsize = AtomicUsize::new(0);

/// hooks installed by other modules (plain function pointers stored as usize)
pub static EMU_HOOK: AtomicUsize = AtomicUsize::new(0);
pub static MMU_HOOK: AtomicUsize = AtomicUsize::new(0);

pub type EmuFn = unsafe fn(sig: i32, code: i32, addr: u64, uc: *mut libc::ucontext_t) -> bool;
pub type MmuFn = unsafe fn(addr: u64, rip: u64) -> bool;

unsafe fn hex(buf: &mut [u8; 20], mut v: u64) {
    buf[0] = b' ';
    buf[1] = b'0';
    buf[2] = b'x';
    for i in 0..16 {
        let d = ((v >> 60) & 0xf) as u8;
        buf[3 + i] = if d < 10 { b'0' + d } else { b'a' + d - 10 };
        v <<= 4;
    }
    buf[19] = b'\n';
}

/// path of the side-car file that records a crash of the main process (set by main)
pub static mut CRASH_PATH: [u8; 512] = [0; 512];
pub static MAIN_PID: AtomicU64 = AtomicU64::new(0);

/// A fault nobody can explain while the crate under test is being driven is data, like a panic:
/// the main process leaves a one-line record next to the trace and exits with status 3; the
/// orchestrator appends it to the trace as a `crash` event, which no specification accepts.
unsafe fn record_crash(sig: i32, code: i32, addr: u64, rip: u64) {
    if MAIN_PID.load(Ordering::Relaxed) != libc::getpid() as u64 || CRASH_PATH[0] == 0 {
        return;
    }
    let fd = libc::open(core::ptr::addr_of!(CRASH_PATH) as *const libc::c_char, libc::O_CREAT | libc::O_WRONLY | libc::O_TRUNC, 0o644);
    if fd < 0 {
        return;
    }
    let mut line = [0u8; 160];
    let mut n = 0usize;
    let mut put = |bytes: &[u8], n: &mut usize| {
        for &b in bytes {
            if *n < 159 {
                line[*n] = b;
                *n += 1;
            }
        }
    };
    put(b"{\"op\":\"crash\",\"signal\":", &mut n);
    let mut dec = |v: u64, n: &mut usize, put: &mut dyn FnMut(&[u8], &mut usize)| {
        let mut d = [0u8; 20];
        let mut k = 20;
        let mut x = v;
        loop {
            k -= 1;
            d[k] = b'0' + (x % 10) as u8;
            x /= 10;
            if x == 0 {
                break;
            }
        }
        put(&d[k..], n);
    };
    dec(sig as u64, &mut n, &mut put);
    put(b",\"code\":", &mut n);
    dec(code as u32 as u64, &mut n, &mut put);
    put(b",\"addr_hi\":", &mut n);
    dec(addr >> 32, &mut n, &mut put);
    put(b",\"addr_lo\":", &mut n);
    dec(addr & 0xffff_ffff, &mut n, &mut put);
    put(b",\"rip_lo\":", &mut n);
    dec(rip & 0xffff_ffff, &mut n, &mut put);
    put(b"}\n", &mut n);
    libc::write(fd, line.as_ptr() as *const libc::c_void, n);
    libc::close(fd);
    libc::_exit(3);
}

unsafe fn die_info(sig: i32, code: i32, addr: u64, rip: u64) -> ! {
    record_crash(sig, code, addr, rip);
    let msg = b"xv: unexplained fault (sig, code, addr, rip):\n";
    libc::write(2, msg.as_ptr() as *const libc::c_void, msg.len());
    let mut b = [0u8; 20];
    for v in [sig as u64, code as u64, addr, rip] {
        hex(&mut b, v);
        libc::write(2, b.as_ptr() as *const libc::c_void, 20);
    }
    die(sig)
}

unsafe fn die(sig: i32) -> ! {
    // a fault we cannot explain: restore the default action and let it happen
    let mut sa: libc::sigaction = core::mem::zeroed();
    sa.sa_sigaction = libc::SIG_DFL;
    libc::sigaction(sig, &sa, core::ptr::null_mut());
    libc::raise(sig);
    libc::_exit(70)
}

unsafe extern "C" fn handler(sig: i32, info: *mut libc::siginfo_t, ctx: *mut libc::c_void) {
    let uc = ctx as *mut libc::ucontext_t;
    let rip = (*uc).uc_mcontext.gregs[libc::REG_RIP as usize] as u64;
    let code = (*info).si_code;
    let addr = (*info).si_addr() as u64;
    let mode = MODE.load(Ordering::Relaxed);
    let memfault = sig == libc::SIGSEGV && (code == 1 || code == 2);
    if memfault && mode & MMU != 0 {
        let h = MMU_HOOK.load(Ordering::Relaxed);
        if h != 0 {
            let f: MmuFn = core::mem::transmute(h);
            if f(addr, rip) {
                return;
            }
        }
    }
    if memfault && mode & STRAY != 0 && addr >= 0x1_0000 {
        let n = NFAULT.fetch_add(1, Ordering::Relaxed);
        if n < MAXF {
            FAULT_ADDR[n].store(addr, Ordering::Relaxed);
            FAULT_RIP[n].store(rip, Ordering::Relaxed);
        }
        // back the page with zeroes (an all-zero "table" ends any further walk)
        let page = addr & !0xfff;
        let p = libc::mmap(
            page as *mut libc::c_void,
            4096,
            libc::PROT_READ | libc::PROT_WRITE,
            libc::MAP_PRIVATE | libc::MAP_ANONYMOUS | libc::MAP_FIXED,
            -1,
            0,
        );
        if p as u64 == page {
            return;
        }
        die_info(sig, code, addr, rip);
    }
    if !memfault && mode & EMU != 0 {
        let h = EMU_HOOK.load(Ordering::Relaxed);
        if h != 0 {
            let f: EmuFn = core::mem::transmute(h);
            if f(sig, code, addr, uc) {
                return;
            }
        }
    }
    die_info(sig, code, addr, rip);
}

pub fn install() {
    unsafe {
        // alternate stack so that faults are handled even with a damaged stack pointer
        let ss_size = 1 << 18;
        let sp = libc::mmap(
            core::ptr::null_mut(),
            ss_size,
            libc::PROT_READ | libc::PROT_WRITE,
            libc::MAP_PRIVATE | libc::MAP_ANONYMOUS,
            -1,
            0,
        );
        let ss = libc::stack_t { ss_sp: sp, ss_flags: 0, ss_size };
        libc::sigaltstack(&ss, core::ptr::null_mut());
        let mut sa: libc::sigaction = core::mem::zeroed();
        sa.sa_sigaction = handler as usize;
        sa.sa_flags = libc::SA_SIGINFO | libc::SA_ONSTACK | libc::SA_NODEFER;
        libc::sigemptyset(&mut sa.sa_mask);
        libc::sigaction(libc::SIGSEGV, &sa, core::ptr::null_mut());
        libc::sigaction(libc::SIGILL, &sa, core::ptr::null_mut());
        libc::sigaction(libc::SIGBUS, &sa, core::ptr::null_mut());
    }
}

/// stray pages mapped since the last call; unmaps them
pub fn take_strays() -> Vec<(u64, u64)> {
    let n = NFAULT.swap(0, Ordering::Relaxed).min(MAXF);
    let mut v = Vec::new();
    for i in 0..n {
        let a = FAULT_ADDR[i].load(Ordering::Relaxed);
        v.push((a, FAULT_RIP[i].load(Ordering::Relaxed)));
        unsafe {
            libc::munmap((a & !0xfff) as *mut libc::c_void, 4096);
        }
    }
    v
}


// ------------------------------------------------------------------------------------------
// software MMU for recursive page-table addresses

pub const MMU_SLOTS: usize = 256;
/// slot -> physical frame address (u64::MAX = unassigned); mirror of PhysMem::rev for the handler
pub static MMU_FRAME: [AtomicU64; MMU_SLOTS] = [const { AtomicU64::new(u64::MAX) }; MMU_SLOTS];
pub static MMU_FD: AtomicU64 = AtomicU64::new(0);
pub static MMU_RIX: AtomicU64 = AtomicU64::new(u64::MAX);
pub static MMU_CR3: AtomicU64 = AtomicU64::new(0);
pub const MMU_MAXLOG: usize = 2048;
/// (virtual page, reached frame, kind): kind 0 = table frame of the arena mapped,
/// 1 = walk hit a non-present entry (page fault of the code under test), 2 = walk left the arena,
/// 3 = reached a frame that is not in the arena (e.g. a data frame)
pub static MMU_LOG: [[AtomicU64; 3]; MMU_MAXLOG] = [const { [const { AtomicU64::new(0) }; 3] }; MMU_MAXLOG];
pub static MMU_NLOG: AtomicUsize = AtomicUsize::new(0);

unsafe fn arena_slot(pa: u64) -> Option<usize> {
    for (i, f) in MMU_FRAME.iter().enumerate() {
        if f.load(Ordering::Relaxed) == pa {
            return Some(i);
        }
    }
    None
}

/// hardware-style walk of the simulated tables for a recursive-region address; maps the result
pub unsafe fn mmu_fault(addr: u64, _rip: u64) -> bool {
    let rix = MMU_RIX.load(Ordering::Relaxed);
    if rix == u64::MAX || (addr >> 39) & 0x1ff != rix || addr >> 47 != 0 {
        return false;
    }
    const MASK: u64 = 0x000f_ffff_ffff_f000;
    let fd = MMU_FD.load(Ordering::Relaxed) as i32;
    let page = addr & !0xfff;
    let mut cur = MMU_CR3.load(Ordering::Relaxed) & MASK;
    let mut kind = 0u64;
    let mut lvl = 4;
    let mut target = 0u64;
    while lvl >= 1 {
        let idx = ((addr >> (12 + 9 * (lvl - 1))) & 0x1ff) as usize;
        let slot = match arena_slot(cur) {
            Some(s) => s,
            None => {
                kind = 2;
                target = cur;
                break;
            }
        };
        // read the entry through a private mapping-free path: pread on the memfd
        let mut e: u64 = 0;
        let n = libc::pread(fd, &mut e as *mut u64 as *mut libc::c_void, 8, (slot * 4096 + idx * 8) as libc::off_t);
        if n != 8 {
            return false;
        }
        if e & 1 == 0 {
            kind = 1;
            target = 0;
            break;
        }
        if lvl > 1 && e & 0x80 != 0 {
            let size = 1u64 << (12 + 9 * (lvl - 1));
            target = ((e & MASK) & !(size - 1)) + (addr & (size - 1) & !0xfff);
            break;
        }
        cur = e & MASK;
        target = cur;
        lvl -= 1;
    }
    let tslot = if kind == 0 { arena_slot(target) } else { None };
    if kind == 0 && tslot.is_none() {
        kind = 3;
    }
    let n = MMU_NLOG.fetch_add(1, Ordering::Relaxed);
    if n < MMU_MAXLOG {
        MMU_LOG[n][0].store(page, Ordering::Relaxed);
        MMU_LOG[n][1].store(target, Ordering::Relaxed);
        MMU_LOG[n][2].store(kind, Ordering::Relaxed);
    }
    let p = match tslot {
        Some(s) => libc::mmap(
            page as *mut libc::c_void,
            4096,
            libc::PROT_READ | libc::PROT_WRITE,
            libc::MAP_SHARED | libc::MAP_FIXED,
            fd,
            (s * 4096) as libc::off_t,
        ),
        None => libc::mmap(
            page as *mut libc::c_void,
            4096,
            libc::PROT_READ | libc::PROT_WRITE,
            libc::MAP_PRIVATE | libc::MAP_ANONYMOUS | libc::MAP_FIXED,
            -1,
            0,
        ),
    };
    p as u64 == page
}

/// (page, frame, kind) of every soft-MMU fill since the last call; drops all those mappings
pub fn take_mmu() -> Vec<(u64, u64, u64)> {
    let n = MMU_NLOG.swap(0, Ordering::Relaxed).min(MMU_MAXLOG);
    let mut v = Vec::new();
    for i in 0..n {
        let pg = MMU_LOG[i][0].load(Ordering::Relaxed);
        v.push((pg, MMU_LOG[i][1].load(Ordering::Relaxed), MMU_LOG[i][2].load(Ordering::Relaxed)));
        unsafe {
            libc::munmap(pg as *mut libc::c_void, 4096);
        }
    }
    v
}

pub fn mmu_install() {
    MMU_HOOK.store(mmu_fault as usize, Ordering::SeqCst);
}
