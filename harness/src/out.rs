//! ndjson event writer. 64-bit values are written as four 16-bit limbs, little-endian
//! (`[l0,l1,l2,l3]`), which is the `Word` representation of the TLA+ specification at LB = 16.

use std::fmt::Write as _;
use std::io::Write;

pub fn prof() -> &'static str {
    if cfg!(debug_assertions) {
        "dev"
    } else {
        "rel"
    }
}

pub fn limbs(v: u64) -> String {
    format!(
        "[{},{},{},{}]",
        v & 0xffff,
        (v >> 16) & 0xffff,
        (v >> 32) & 0xffff,
        (v >> 48) & 0xffff
    )
}

/// result of a call on the code under test
#[derive(Clone, Debug, PartialEq)]
pub enum Res {
    Ok(u64),
    Err,
    None,
    Panic,
}

impl Res {
    pub fn json(&self) -> String {
        match self {
            Res::Ok(v) => format!("{{\"k\":\"ok\",\"v\":{}}}", limbs(*v)),
            Res::Err => "{\"k\":\"err\",\"v\":[0,0,0,0]}".to_string(),
            Res::None => "{\"k\":\"none\",\"v\":[0,0,0,0]}".to_string(),
            Res::Panic => "{\"k\":\"panic\",\"v\":[0,0,0,0]}".to_string(),
        }
    }
    pub fn kind(&self) -> &'static str {
        match self {
            Res::Ok(_) => "ok",
            Res::Err => "err",
            Res::None => "none",
            Res::Panic => "panic",
        }
    }
}

pub struct Ev {
    s: String,
}

impl Ev {
    pub fn new(op: &str) -> Ev {
        let mut s = String::with_capacity(256);
        let _ = write!(s, "{{\"op\":\"{}\",\"prof\":\"{}\"", op, prof());
        Ev { s }
    }
    /// 64-bit word field
    pub fn w(mut self, name: &str, v: u64) -> Ev {
        let _ = write!(self.s, ",\"{}\":{}", name, limbs(v));
        self
    }
    /// small integer field
    pub fn n(mut self, name: &str, v: i64) -> Ev {
        let _ = write!(self.s, ",\"{}\":{}", name, v);
        self
    }
    pub fn str(mut self, name: &str, v: &str) -> Ev {
        let _ = write!(self.s, ",\"{}\":\"{}\"", name, v);
        self
    }
    pub fn raw(mut self, name: &str, json: &str) -> Ev {
        let _ = write!(self.s, ",\"{}\":{}", name, json);
        self
    }
    pub fn res(self, r: &Res) -> Ev {
        let j = r.json();
        self.raw("res", &j)
    }
    pub fn words(mut self, name: &str, vs: &[u64]) -> Ev {
        let _ = write!(self.s, ",\"{}\":[", name);
        for (i, v) in vs.iter().enumerate() {
            if i > 0 {
                self.s.push(',');
            }
            self.s.push_str(&limbs(*v));
        }
        self.s.push(']');
        self
    }
    pub fn ints(mut self, name: &str, vs: &[i64]) -> Ev {
        let _ = write!(self.s, ",\"{}\":[", name);
        for (i, v) in vs.iter().enumerate() {
            if i > 0 {
                self.s.push(',');
            }
            let _ = write!(self.s, "{}", v);
        }
        self.s.push(']');
        self
    }
    pub fn finish(mut self) -> String {
        self.s.push('}');
        self.s
    }
}

pub struct Out {
    w: std::io::BufWriter<std::fs::File>,
    pub count: u64,
}

impl Out {
    pub fn create(path: &str) -> Out {
        let f = std::fs::File::create(path).unwrap_or_else(|e| {
            eprintln!("xv: cannot create {}: {}", path, e);
            std::process::exit(2)
        });
        Out {
            w: std::io::BufWriter::with_capacity(1 << 20, f),
            count: 0,
        }
    }
    pub fn emit(&mut self, ev: Ev) {
        let s = ev.finish();
        self.w.write_all(s.as_bytes()).unwrap();
        self.w.write_all(b"\n").unwrap();
        self.count += 1;
    }
    pub fn emit_line(&mut self, s: &str) {
        self.w.write_all(s.as_bytes()).unwrap();
        self.w.write_all(b"\n").unwrap();
        self.count += 1;
    }
    pub fn flush(&mut self) {
        self.w.flush().unwrap();
    }
}

thread_local! {
    static IN_CATCH: std::cell::Cell<u32> = std::cell::Cell::new(0);
}

/// run `f`, turning a panic of the code under test into data
pub fn catch<T>(f: impl FnOnce() -> T) -> Option<T> {
    IN_CATCH.with(|c| c.set(c.get() + 1));
    let r = std::panic::catch_unwind(std::panic::AssertUnwindSafe(f)).ok();
    IN_CATCH.with(|c| c.set(c.get() - 1));
    r
}

/// where a panic outside any `catch` happened, if it was raised by the code under test
pub static UNCAUGHT: std::sync::Mutex<Option<(String, u32)>> = std::sync::Mutex::new(None);

/// Panics of the code under test are data and stay silent.  A panic outside any `catch` is
/// attributed by its location: raised inside the crate under test (its sources are outside
/// this harness) it is still data - the family run is cut short and an `uncaught_panic` event,
/// which no trace specification accepts, is recorded; raised by the harness's own code it is
/// a tool error: print it and exit 2.
pub fn silence_panics() {
    std::panic::set_hook(Box::new(|info| {
        if IN_CATCH.with(|c| c.get()) == 0 {
            let (file, line) = info.location().map(|l| (l.file().to_string(), l.line())).unwrap_or(("?".into(), 0));
            let harness = file.starts_with("src/") || file.starts_with("/rustc/") || file == "?" || file.contains("/harness/src/");
            if harness {
                eprintln!("xv: harness panic: {}", info);
                std::process::exit(2);
            }
            *UNCAUGHT.lock().unwrap() = Some((file, line));
        }
    }));
}
