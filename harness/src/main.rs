#![feature(step_trait)]
#![feature(abi_x86_interrupt)]
//! xv — conformance harness for rust-osdev/x86_64: drives the real crate and records ndjson
//! traces that TLC validates against the TLA+ specification in /verif/spec.

mod addr;
mod consts;
mod cpu;
mod cpufam;
mod gdt;
mod gen;
mod idt;
mod out;
mod physmem;
mod pt;
mod pte;
mod regs;
mod trap;

use out::Out;

fn usage() -> ! {
    eprintln!("usage: xv <family> [--prop ID] [--seed N] [--n N] [--out FILE] [--in FILE]");
    std::process::exit(2)
}

pub struct Args {
    pub family: String,
    pub prop: String,
    pub seed: u64,
    pub n: u64,
    pub out: String,
    pub input: String,
    pub mode: String,
}

fn parse() -> Args {
    let mut it = std::env::args().skip(1);
    let family = it.next().unwrap_or_else(|| usage());
    let mut a = Args {
        family,
        prop: String::new(),
        seed: 1,
        n: 1000,
        out: "trace.ndjson".into(),
        input: String::new(),
        mode: String::new(),
    };
    while let Some(k) = it.next() {
        let v = it.next().unwrap_or_else(|| usage());
        match k.as_str() {
            "--prop" => a.prop = v,
            "--seed" => a.seed = v.parse().unwrap_or_else(|_| usage()),
            "--n" => a.n = v.parse().unwrap_or_else(|_| usage()),
            "--out" => a.out = v,
            "--in" => a.input = v,
            "--mode" => a.mode = v,
            _ => usage(),
        }
    }
    a
}

fn main() {
    let args = parse();
    out::silence_panics();
    trap::install();
    cpu::install();
    trap::mmu_install();
    unsafe {
        let cp = format!("{}.crash", args.out);
        let b = cp.as_bytes();
        if b.len() < 511 {
            let dst = std::ptr::addr_of_mut!(trap::CRASH_PATH) as *mut u8;
            std::ptr::copy_nonoverlapping(b.as_ptr(), dst, b.len());
        }
        trap::MAIN_PID.store(libc::getpid() as u64, std::sync::atomic::Ordering::SeqCst);
        let _ = std::fs::remove_file(&cp);
    }
    let mut o = Out::create(&args.out);
    let r = std::panic::catch_unwind(std::panic::AssertUnwindSafe(|| run(&args, &mut o)));
    if r.is_err() {
        // only reached for a panic raised inside the crate under test (see out::silence_panics)
        let (file, line) = out::UNCAUGHT.lock().unwrap().clone().unwrap_or(("?".into(), 0));
        let file = file.rsplit("/src/").next().unwrap_or("?").replace(['"', '\\'], "");
        o.emit(out::Ev::new("uncaught_panic").str("file", &file).n("line", line as i64));
    }
    o.flush();
    eprintln!("xv: {} events -> {}", o.count, args.out);
}

fn run(args: &Args, o: &mut Out) {
    let mut o = o;
    match args.family.as_str() {
        "addr" => match args.prop.as_str() {
            "C03" => addr::run_c03(&mut o, args.seed, args.n),
            "C04" => addr::run_c04(&mut o, args.seed, args.n),
            "C05" => addr::run_c05(&mut o, args.seed, args.n),
            "C06" => addr::run_c06(&mut o, args.seed, args.n),
            "C07" => addr::run_c07(&mut o, args.seed, args.n),
            "C20" => addr::run_c20_pure(&mut o, args.seed, args.n),
            _ => usage(),
        },
        "idt" => idt::run_idt(&mut o, args.seed, args.n),
        "idt13" => idt::run_idt13(&mut o, args.seed, args.n),
        "machine" => idt::run_machine(&mut o, args.seed, args.n),
        "consts" => consts::run_consts(&mut o, args.seed, args.n),
        "gdt" => gdt::run_gdt(&mut o, args.seed, args.n),
        "desc" => gdt::run_desc(&mut o, args.seed, args.n),
        "pte" => pte::run_pte(&mut o, args.seed, args.n),
        "regs" => regs::run_regs(&mut o, args.seed, args.n),
        "ctx" => {
            cpu::reset_regs();
            regs::run_ctx(&mut o, &mut gen::Rng::new(args.seed ^ 0xc7c7), &args.prop)
        }
        "ports" => cpufam::run_ports(&mut o, args.seed, args.n),
        "intr" => cpufam::run_intr(&mut o, args.seed, args.n),
        "flush" => cpufam::run_flush(&mut o, args.seed, args.n),
        "rptnew" => {
            out::Ev::new("x");
            o.emit(out::Ev::new("reset").str("kind", "none").w("root", 0).n("rix", -1).w("offset", 0).words("pool", &[]).raw("mem", "[]"));
            pt::run_rpt_new(&mut o, args.seed, args.n)
        }
        "ptstim" => {
            let kind = if args.mode.is_empty() { "mapped".to_string() } else { args.mode.clone() };
            pt::run_stimuli(&mut o, &args.input, &kind, args.n.max(1), args.seed)
        }
        "pt" => {
            let kinds: Vec<&str> = if args.mode.is_empty() { vec!["mapped", "offset", "recursive"] } else { args.mode.split(',').collect() };
            pt::run_random(&mut o, args.seed, args.n, &kinds, &args.prop)
        }
        _ => usage(),
    }
}
