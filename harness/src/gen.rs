//! Deterministic RNG and boundary-value lattices (inputs only; no expected values live here).

#[derive(Clone)]
pub struct Rng(u64);

impl Rng {
    pub fn new(seed: u64) -> Rng {
        let mut r = Rng(seed ^ 0x9e37_79b9_7f4a_7c15);
        for _ in 0..4 {
            r.next();
        }
        r
    }
    pub fn next(&mut self) -> u64 {
        // splitmix64
        self.0 = self.0.wrapping_add(0x9e37_79b9_7f4a_7c15);
        let mut z = self.0;
        z = (z ^ (z >> 30)).wrapping_mul(0xbf58_476d_1ce4_e5b9);
        z = (z ^ (z >> 27)).wrapping_mul(0x94d0_49bb_1331_11eb);
        z ^ (z >> 31)
    }
    pub fn below(&mut self, n: u64) -> u64 {
        if n == 0 {
            0
        } else {
            self.next() % n
        }
    }
    pub fn pick<'a, T>(&mut self, xs: &'a [T]) -> &'a T {
        &xs[self.below(xs.len() as u64) as usize]
    }
    pub fn chance(&mut self, num: u64, den: u64) -> bool {
        self.below(den) < num
    }
    /// random value with a random bit width (dense in small and in large values)
    pub fn wide(&mut self) -> u64 {
        let bits = self.below(65);
        if bits == 0 {
            0
        } else {
            self.next() >> (64 - bits)
        }
    }
}

/// {2^k + d : k in 0..=64, d in -2..=2} (mod 2^64) plus architectural boundaries
pub fn lattice64() -> Vec<u64> {
    let mut v = Vec::new();
    for k in 0..=64u32 {
        let p: u64 = if k == 64 { 0 } else { 1u64 << k };
        for d in -2i64..=2 {
            v.push(p.wrapping_add(d as u64));
        }
    }
    let extra: [u64; 16] = [
        0x0000_7fff_ffff_f000,
        0x0000_7fff_ffe0_0000,
        0x0000_7fff_c000_0000,
        0xffff_8000_0000_1000,
        0xffff_8000_0020_0000,
        0xffff_8000_4000_0000,
        0xffff_ffff_ffff_f000,
        0xffff_ffff_ffe0_0000,
        0xffff_ffff_c000_0000,
        0x000f_ffff_ffff_f000,
        0x000f_ffff_ffe0_0000,
        0x000f_ffff_c000_0000,
        0xffff_7fff_ffff_ffff,
        0x0000_8000_0000_0001,
        0xdead_beef_cafe_f00d,
        0x0123_4567_89ab_cdef,
    ];
    v.extend_from_slice(&extra);
    // sign-extended forms of the lattice (upper half counterparts)
    let n = v.len();
    for i in 0..n {
        let x = v[i];
        v.push(((x << 16) as i64 >> 16) as u64);
    }
    v.sort_unstable();
    v.dedup();
    v
}

pub fn canon(x: u64) -> u64 {
    ((x << 16) as i64 >> 16) as u64
}

/// canonical lattice: canonical members of lattice64 plus sign-extended versions
pub fn lattice_canon() -> Vec<u64> {
    let mut v: Vec<u64> = lattice64().into_iter().map(canon).collect();
    v.sort_unstable();
    v.dedup();
    v
}

pub fn lattice_phys() -> Vec<u64> {
    let mut v: Vec<u64> = lattice64()
        .into_iter()
        .map(|x| x & 0x000f_ffff_ffff_ffff)
        .collect();
    v.sort_unstable();
    v.dedup();
    v
}

/// a value from the lattice or a random one, half and half
pub fn any64(r: &mut Rng, lat: &[u64]) -> u64 {
    match r.below(4) {
        0 | 1 => *r.pick(lat),
        2 => r.wide(),
        _ => r.pick(lat).wrapping_add(r.below(9)).wrapping_sub(4),
    }
}
