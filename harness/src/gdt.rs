//! Driver for the GDT (C14) and descriptor / TSS encodings (C15).

use crate::cpu;
use crate::gen::*;
use crate::out::*;
use x86_64::structures::gdt::{Descriptor, DescriptorFlags, GlobalDescriptorTable};
use x86_64::structures::tss::TaskStateSegment;
use x86_64::structures::DescriptorTablePointer;
use x86_64::{PrivilegeLevel, VirtAddr};

/// limit() of the code under test; a panic is data (-1)
fn lim<const MAX: usize>(g: &GlobalDescriptorTable<MAX>) -> i64 {
    catch(|| g.limit() as i64).unwrap_or(-1)
}

fn rand_desc(r: &mut Rng, lat: &[u64]) -> Descriptor {
    let dpl = r.below(4) << 45;
    let lo = (any64(r, lat) & !(3u64 << 45)) | dpl;
    if r.chance(1, 3) {
        // upper halves that are zero (a TSS/LDT below 4 GiB) take their slot like any other
        Descriptor::SystemSegment(lo, if r.chance(1, 4) { 0 } else { any64(r, lat) })
    } else {
        Descriptor::UserSegment(lo)
    }
}

fn behaviour<const MAX: usize>(out: &mut Out, r: &mut Rng, lat: &[u64]) {
    let mut g: GlobalDescriptorTable<MAX> = GlobalDescriptorTable::empty();
    let ent = |g: &GlobalDescriptorTable<MAX>| -> Vec<u64> { g.entries().iter().map(|e| e.raw()).collect() };
    out.emit(Ev::new("gdt_reset").n("max", MAX as i64).words("entries", &ent(&g)).n("limit", lim(&g)));
    let total = if MAX > 100 { MAX + 3 } else { MAX + 4 + r.below(4) as usize };
    for step in 0..total {
        let d = if MAX > 100 && step < MAX - 6 { Descriptor::UserSegment(((step as u64) << 3) | (r.below(4) << 45)) } else { rand_desc(r, lat) };
        let (sys, lo, hi) = match d {
            Descriptor::UserSegment(v) => (0, v, 0),
            Descriptor::SystemSegment(a, b) => (1, a, b),
        };
        let before = g.entries().len();
        let res = catch(|| g.append(d));
        let after: Vec<u64> = ent(&g);
        // only the tail is logged (tables may have 8192 slots); the full table is dumped at the end
        let tail_from = before.saturating_sub(1).min(after.len());
        let (k, sel) = match res {
            Some(s) => ("ok", s.0 as i64),
            None => ("panic", -1),
        };
        out.emit(
            Ev::new("gdt_append")
                .n("sys", sys)
                .w("lo", lo)
                .w("hi", hi)
                .str("k", k)
                .n("sel", sel)
                .n("len", after.len() as i64)
                .n("tail_from", tail_from as i64)
                .words("tail", &after[tail_from..])
                .n("limit", lim(&g)),
        );
        if MAX <= 100 && r.chance(1, 3) {
            load_ev(out, &g); // partially filled tables too
        }
    }
    out.emit(Ev::new("gdt_dump").words("entries", &ent(&g)).n("limit", lim(&g)));
    load_ev(out, &g);
    // loading hands the CPU the table's own address and limit
    cpu::drain();
    let base = g.entries().as_ptr() as u64;
    let ok = catch(|| unsafe { g.load_unsafe() }).is_some();
    let ins = cpu::drain();
    out.emit(
        Ev::new("gdt_load")
            .w("table", base)
            .n("limit", lim(&g))
            .str("k", if ok { "ok" } else { "panic" })
            .raw("instrs", &cpu::instrs_json(&ins)),
    );
    let c = g.clone();
    out.emit(Ev::new("gdt_dump").words("entries", &ent(&c)).n("limit", lim(&c)));
}

fn load_ev<const MAX: usize>(out: &mut Out, g: &GlobalDescriptorTable<MAX>) {
    cpu::drain();
    let base = g.entries().as_ptr() as u64;
    let ok = catch(|| unsafe { g.load_unsafe() }).is_some();
    let ins = cpu::drain();
    out.emit(
        Ev::new("gdt_load")
            .w("table", base)
            .n("limit", lim(g))
            .str("k", if ok { "ok" } else { "panic" })
            .raw("instrs", &cpu::instrs_json(&ins)),
    );
}

fn from_raw<const MAX: usize>(out: &mut Out, r: &mut Rng, lat: &[u64]) {
    for _ in 0..12 {
        let len = match r.below(5) {
            0 => 0,
            1 => MAX.min(9000),
            2 => (MAX + 1).min(9000),
            _ => 1 + r.below(MAX.min(40) as u64) as usize,
        };
        let mut sl: Vec<u64> = (0..len).map(|_| any64(r, lat)).collect();
        if !sl.is_empty() && r.chance(4, 5) {
            sl[0] = 0;
        }
        // trailing zero entries (padding, or the zero upper half of a low system descriptor) count
        if sl.len() >= 2 && r.chance(1, 2) {
            let k = sl.len();
            sl[k - 1] = 0;
            if k >= 3 && r.chance(1, 2) {
                sl[k - 2] = 0;
            }
        }
        let g = catch(|| GlobalDescriptorTable::<MAX>::from_raw_entries(&sl));
        match g {
            Some(g) => {
                let e: Vec<u64> = g.entries().iter().map(|e| e.raw()).collect();
                out.emit(Ev::new("gdt_from_raw").n("max", MAX as i64).words("slice", &sl).str("k", "ok").words("entries", &e).n("limit", lim(&g)));
            }
            None => out.emit(Ev::new("gdt_from_raw").n("max", MAX as i64).words("slice", &sl).str("k", "panic").words("entries", &[]).n("limit", -1)),
        }
    }
}

pub fn run_gdt(out: &mut Out, seed: u64, n: u64) {
    cpu::reset_regs();
    let lat = lattice64();
    let mut r = Rng::new(seed);
    let reps = (n / 400).max(2);
    for _ in 0..reps {
        behaviour::<1>(out, &mut r, &lat);
        behaviour::<2>(out, &mut r, &lat);
        behaviour::<3>(out, &mut r, &lat);
        behaviour::<8>(out, &mut r, &lat);
        behaviour::<9>(out, &mut r, &lat);
        from_raw::<1>(out, &mut r, &lat);
        from_raw::<3>(out, &mut r, &lat);
        from_raw::<8>(out, &mut r, &lat);
        from_raw::<8192>(out, &mut r, &lat);
    }
    behaviour::<8192>(out, &mut r, &lat);
    // default table
    let g = GlobalDescriptorTable::new();
    let e: Vec<u64> = g.entries().iter().map(|e| e.raw()).collect();
    out.emit(Ev::new("gdt_reset").n("max", 8).words("entries", &e).n("limit", lim(&g)));
}

static TSS: TaskStateSegment = TaskStateSegment::new();

pub fn run_desc(out: &mut Out, seed: u64, n: u64) {
    let lat = lattice64();
    let mut r = Rng::new(seed);
    let emit_tss = |out: &mut Out, p: u64, d: Option<Descriptor>| match d {
        Some(Descriptor::SystemSegment(lo, hi)) => out.emit(Ev::new("tss_desc").w("ptr", p).str("k", "sys").w("lo", lo).w("hi", hi)),
        Some(Descriptor::UserSegment(lo)) => out.emit(Ev::new("tss_desc").w("ptr", p).str("k", "user").w("lo", lo).w("hi", 0)),
        None => out.emit(Ev::new("tss_desc").w("ptr", p).str("k", "panic").w("lo", 0).w("hi", 0)),
    };
    for &p in &lat {
        let d = catch(|| unsafe { Descriptor::tss_segment_unchecked(p as *const TaskStateSegment) });
        emit_tss(out, p, d);
    }
    for _ in 0..n {
        let p = r.wide();
        let d = catch(|| unsafe { Descriptor::tss_segment_unchecked(p as *const TaskStateSegment) });
        emit_tss(out, p, d);
    }
    emit_tss(out, &TSS as *const _ as u64, catch(|| Descriptor::tss_segment(&TSS)));
    // the descriptor depends on the address of the TSS only, not on what the TSS contains
    for (i, iomap) in [0u16, 0x68, 0xffff, 0x1234, 0x67, 0x2068].into_iter().enumerate() {
        let mut t = TaskStateSegment::new();
        t.iomap_base = iomap;
        for k in 0..7 {
            t.interrupt_stack_table[k] = x86_64::VirtAddr::new_truncate(r.next().wrapping_mul(i as u64 + 1));
        }
        t.privilege_stack_table[0] = x86_64::VirtAddr::new_truncate(r.next());
        let t: &'static TaskStateSegment = Box::leak(Box::new(t));
        emit_tss(out, t as *const _ as u64, catch(|| Descriptor::tss_segment(t)));
        emit_tss(out, t as *const _ as u64, catch(|| unsafe { Descriptor::tss_segment_unchecked(t) }));
    }
    // the predefined descriptors and flag presets
    let pre = |out: &mut Out, name: &str, d: Descriptor| {
        let (k, lo) = match d {
            Descriptor::UserSegment(v) => ("user", v),
            Descriptor::SystemSegment(v, _) => ("sys", v),
        };
        out.emit(Ev::new("preset").str("name", name).str("k", k).w("lo", lo).n("dpl", d.dpl() as i64));
    };
    pre(out, "kernel_code64", Descriptor::kernel_code_segment());
    pre(out, "kernel_data", Descriptor::kernel_data_segment());
    pre(out, "user_data", Descriptor::user_data_segment());
    pre(out, "user_code64", Descriptor::user_code_segment());
    pre(out, "kernel_code64", Descriptor::UserSegment(DescriptorFlags::KERNEL_CODE64.bits()));
    pre(out, "kernel_code32", Descriptor::UserSegment(DescriptorFlags::KERNEL_CODE32.bits()));
    pre(out, "kernel_data", Descriptor::UserSegment(DescriptorFlags::KERNEL_DATA.bits()));
    pre(out, "user_code64", Descriptor::UserSegment(DescriptorFlags::USER_CODE64.bits()));
    pre(out, "user_code32", Descriptor::UserSegment(DescriptorFlags::USER_CODE32.bits()));
    pre(out, "user_data", Descriptor::UserSegment(DescriptorFlags::USER_DATA.bits()));
    // dpl() on arbitrary patterns
    for i in 0..(n / 2).max(400) {
        let lo = any64(&mut r, &lat) & !(3u64 << 45) | ((i % 4) << 45);
        let d = if i % 3 == 0 { Descriptor::SystemSegment(lo, r.next()) } else { Descriptor::UserSegment(lo) };
        let v = catch(|| d.dpl() as i64).unwrap_or(-1);
        out.emit(Ev::new("desc_dpl").w("lo", lo).n("dpl", v));
    }
    let _ = PrivilegeLevel::Ring0;
    // layouts (offsets by pointer arithmetic on real instances)
    let t = TaskStateSegment::new();
    let b = &t as *const _ as u64;
    let off = |p: u64| (p - b) as i64;
    out.emit(
        Ev::new("tss_layout")
            .n("size", core::mem::size_of::<TaskStateSegment>() as i64)
            .n("pst", off(core::ptr::addr_of!(t.privilege_stack_table) as u64))
            .n("ist", off(core::ptr::addr_of!(t.interrupt_stack_table) as u64))
            .n("iomap", off(core::ptr::addr_of!(t.iomap_base) as u64))
            .n("iomap_init", { let v = t.iomap_base; v } as i64)
            .n("pst_len", 3)
            .n("ist_len", 7)
            .n("default_iomap", { let d = TaskStateSegment::default(); let v = d.iomap_base; v } as i64)
            .n("zeroed", {
                let bytes = unsafe { core::slice::from_raw_parts(b as *const u8, 0x66) };
                bytes.iter().all(|x| *x == 0)
            } as i64),
    );
    // cross-structure: an IDT gate with stack index i makes the CPU load IST(i+1), which is the
    // 8 bytes at TSS offset 0x24 + 8*i = interrupt_stack_table[i]; privilege stack n at 4 + 8*n
    {
        let mut t = TaskStateSegment::new();
        for i in 0..7 {
            t.interrupt_stack_table[i] = VirtAddr::new(0x1111_0000_0000 + 0x1000 * i as u64);
        }
        for i in 0..3 {
            t.privilege_stack_table[i] = VirtAddr::new(0x2222_0000_0000 + 0x1000 * i as u64);
        }
        let b = &t as *const _ as *const u8;
        let rd = |off: usize| unsafe { core::ptr::read_unaligned(b.add(off) as *const u64) };
        let ist: Vec<u64> = (0..7).map(|i| rd(0x24 + 8 * i)).collect();
        let pst: Vec<u64> = (0..3).map(|i| rd(4 + 8 * i)).collect();
        out.emit(Ev::new("tss_stacks").words("ist", &ist).words("pst", &pst));
    }
    // cross-structure: GDT + TSS descriptor + ltr
    {
        let mut g: GlobalDescriptorTable<8> = GlobalDescriptorTable::empty();
        let cs = catch(|| g.append(Descriptor::kernel_code_segment()));
        let ds = catch(|| g.append(Descriptor::kernel_data_segment()));
        let ucs = catch(|| g.append(Descriptor::user_code_segment()));
        let ts = catch(|| g.append(Descriptor::tss_segment(&TSS)));
        let e: Vec<u64> = g.entries().iter().map(|e| e.raw()).collect();
        cpu::drain();
        if let Some(sel) = ts {
            let _ = catch(|| unsafe { x86_64::instructions::tables::load_tss(sel) });
        }
        let ins = cpu::drain();
        out.emit(
            Ev::new("gdt_tss")
                .words("entries", &e)
                .n("cs", cs.map(|s| s.0 as i64).unwrap_or(-1))
                .n("ds", ds.map(|s| s.0 as i64).unwrap_or(-1))
                .n("ucs", ucs.map(|s| s.0 as i64).unwrap_or(-1))
                .n("ts", ts.map(|s| s.0 as i64).unwrap_or(-1))
                .w("tss", &TSS as *const _ as u64)
                .raw("instrs", &cpu::instrs_json(&ins)),
        );
    }
    {
        let d: GlobalDescriptorTable = Default::default();
        let e: Vec<u64> = d.entries().iter().map(|x| x.raw()).collect();
        out.emit(Ev::new("gdt_default").words("entries", &e).n("limit", lim(&d)));
    }
    let p = DescriptorTablePointer { limit: 0xabcd, base: VirtAddr::new(0x1122_3344_5566) };
    let pb = &p as *const _ as u64;
    let bytes: Vec<i64> = (0..10).map(|i| unsafe { *((pb + i) as *const u8) } as i64).collect();
    out.emit(
        Ev::new("dtp_layout")
            .n("size", core::mem::size_of::<DescriptorTablePointer>() as i64)
            .n("limit_off", (core::ptr::addr_of!(p.limit) as u64 - pb) as i64)
            .n("base_off", (core::ptr::addr_of!(p.base) as u64 - pb) as i64)
            .ints("bytes", &bytes),
    );
}
