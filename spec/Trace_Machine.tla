---------------------------- MODULE Trace_Machine ----------------------------
(***************************************************************************)
(* Cross-structure conformance: a kernel set-up built only through the     *)
(* crate's API (GDT with code/data/TSS descriptors, TSS with stacks, IDT   *)
(* with handlers and options) is handed to the CPU (trapped lgdt, ltr,     *)
(* lidt), and the raw memory the CPU was pointed at is logged.  The        *)
(* specification then delivers every vector the way the processor does     *)
(* (Machine.tla) and requires what the API calls said: the handler, the    *)
(* code segment, the stack and the interrupt-flag effect - and a           *)
(* not-present fault for every vector that was not configured.             *)
(***************************************************************************)
EXTENDS Machine, Integers, Json, IOUtils

Rec == ndJsonDeserialize(IOEnv.TRACE)
VARIABLES l, bad

Instr(e, m) == { k \in 1 .. Len(e.instrs) : e.instrs[k].m = m }

MachineOK(e) ==
    LET gl == e.gdt_limit
        il == e.idt_limit
        \* ltr marks the descriptor it loads busy (type 9 -> 11, bit 41 of the low word): the image read back after the
        \* load shows the mark, the load itself saw the descriptor without it, and it fetched exactly these two words
        ti == e.tr \div 8 + 1
        busy == << 0, 0, 512, 0 >>
        pre == IF ti + 1 <= Len(e.gdt) THEN [e.gdt EXCEPT ![ti] = AndW(@, NotW(busy))] ELSE e.gdt
        tr == LoadTr(pre, gl, e.tr)
        ltrs == SelectSeq(e.instrs, LAMBDA i : i.m = "ltr")
        want == [ k \in 1 .. Len(e.gates) |-> e.gates[k] ]       \* [v, handler, ist (0 none, 1..7), dpl, trap]
        cfgd == { want[k].v : k \in 1 .. Len(want) }
        rsp0 == << 65520, 65535, 32767, 0 >>                      \* interrupted stack pointer 0x7fff_ffff_fff0
        D(v, soft, cpl) == Deliver(e.idt, il, e.gdt, gl, e.tss, tr.limit, v, soft, cpl, rsp0, 1)
    IN \* the CPU was given the tables' own addresses and limits
       /\ e.k = "ok"
       /\ e.gdt_base = e.gdt_addr /\ gl = 8 * e.gdt_len - 1 /\ Len(e.gdt) = e.gdt_len
       /\ e.idt_base = e.idt_addr /\ il = 4095 /\ Len(e.idt) = 512
       \* the task register points at the TSS that was described
       /\ ti + 1 <= Len(e.gdt) /\ Bit(e.gdt[ti], 41) = 1
       /\ Len(ltrs) = 1 /\ ltrs[1].b = pre[ti] /\ ltrs[1].c = pre[ti + 1]
       /\ tr.k = "ok" /\ tr.base = e.tss_addr /\ tr.limit = 103 /\ Len(e.tss) = 104
       /\ TssIoMapBase(e.tss) = 104
       \* the code selector the gates carry is the kernel code segment that was appended
       /\ e.kcs % 8 = 0 /\ PresetOK("kernel_code64", e.gdt[e.kcs \div 8 + 1])
       /\ e.ucs % 8 = 3 /\ PresetOK("user_code64", e.gdt[e.ucs \div 8 + 1])
       /\ e.uds % 8 = 3 /\ PresetOK("user_data", e.gdt[e.uds \div 8 + 1])
       \* every configured vector is delivered to its handler ...
       /\ \A k \in 1 .. Len(want) :
            LET w == want[k]
                hw == D(w.v, FALSE, 0)                           \* exception / external interrupt in ring 0
                u  == D(w.v, FALSE, 3)                           \* ... arriving in ring 3
                sw == D(w.v, TRUE, 3)                            \* INT n from ring 3
            IN /\ hw.k = "ok" /\ hw.rip = w.handler /\ hw.cs = e.kcs
               /\ hw.ifl = (IF w.trap = 1 THEN 1 ELSE 0)
               /\ hw.rsp = (IF w.ist > 0 THEN AlignDownV(e.ist[w.ist], 4) ELSE rsp0)
               /\ u.k = "ok" /\ u.rip = w.handler /\ u.cs = e.kcs
               /\ u.rsp = AlignDownV(IF w.ist > 0 THEN e.ist[w.ist] ELSE e.pst[1], 4)   \* RSP0 on entry from ring 3
               /\ (IF w.dpl = 3 THEN sw.k = "ok" /\ sw.rip = w.handler ELSE sw.k = "GP")
       \* ... and every other vector faults as "not present"
       /\ \A v \in 0 .. 255 : v \notin cfgd => D(v, FALSE, 0).k = "NP"
       \* the stacks the CPU reads are the ones that were stored
       /\ \A n \in 1 .. 7 : TssIst(e.tss, n) = e.ist[n]
       /\ \A n \in 0 .. 2 : TssRsp(e.tss, n) = e.pst[n + 1]

Check(e) == CASE e.op = "machine" -> MachineOK(e) [] OTHER -> FALSE

Init == l = 1 /\ bad = 0 /\ tab = << >> /\ max = 0 /\ gates = << >>
Next == /\ l <= Len(Rec) /\ l' = l + 1
        /\ bad' = IF Check(Rec[l]) THEN bad ELSE IF PrintT(<<"MISMATCH", l>>) THEN bad + 1 ELSE bad
        /\ UNCHANGED <<tab, max, gates>>
Spec == Init /\ [][Next]_<<l, bad, tab, max, gates>>

Consumed == TLCGet("stats").diameter = Len(Rec) + 1
Post == IF Consumed THEN PrintT(<<"CONSUMED", Len(Rec)>>)
        ELSE PrintT(<<"STUCK", TLCGet("stats").diameter>>) /\ FALSE
=============================================================================
