CONSTANTS
  LB = 2
  VB = 6
  PB = 7
  OB = 2
  IB = 1
SPECIFICATION Spec
INVARIANT Inv
CHECK_DEADLOCK FALSE
