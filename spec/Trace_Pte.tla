------------------------------ MODULE Trace_Pte ------------------------------
(***************************************************************************)
(* Trace validation for page-table entries and tables (C08).  Every event  *)
(* carries the raw entry before the operation (read by the harness through *)
(* the repr(transparent) u64), the arguments, the raw entry afterwards and *)
(* what every getter reports; table events carry the value written through *)
(* one access path, what the other paths read, and the raw bytes.          *)
(***************************************************************************)
EXTENDS Pte, Integers, Json, IOUtils, TLC

Rec == ndJsonDeserialize(IOEnv.TRACE)
VARIABLES l, bad

(* the getters must describe `after` *)
Getters(e) ==
    /\ e.addr = Ok(EAddr(e.after))
    /\ AndW(e.flags, FlagFieldP) = EFlags(e.after)          \* bit 12 (PAT of huge leaves) is an address bit
    /\ e.unused = (IF EIsUnused(e.after) THEN 1 ELSE 0)
    /\ e.frame = EFrame(e.after)

Step(e, r) == IF r.k = "ok" THEN e.k = "ok" /\ e.after = r.v
              ELSE e.k = "panic" /\ e.after = e.before       \* rejected: entry unchanged

Check(e) ==
    CASE e.op = "pte_new" -> e.after = ENew /\ Getters(e)
      [] e.op \in {"pte_set_addr", "pte_set_frame"} -> Step(e, ESetAddr(e.before, e.a, e.f)) /\ Getters(e)
      [] e.op = "pte_set_flags" -> Step(e, ESetFlags(e.before, e.f)) /\ Getters(e)
      [] e.op = "pte_set_unused" -> Step(e, ESetUnused(e.before)) /\ Getters(e)
      [] e.op = "pte_clone" -> e.after = e.before /\ Getters(e)
      [] e.op = "pte_layout" -> e.entry_size = 8 /\ e.table_size = 4096 /\ e.table_align = 4096
      [] e.op = "tbl_new" -> e.empty = 1 /\ e.aligned = 1 /\ e.nonzero_bytes = 0
      [] e.op = "tbl_slot" ->
            /\ e.reads = << e.v, e.v, e.v, e.v >>             \* every access path addresses the same slot
            /\ e.bytes = BytesLE(e.v)                         \* 8 little-endian bytes ...
            /\ e.offset = 8 * e.i                             \* ... at byte 8i
            /\ e.iter_len = 512 /\ e.iter_mut_len = 512
            /\ e.empty = 0
      [] e.op = "tbl_iter" ->      \* iterator adaptors address the same slots: nth(k) is slot k and consumes it
            LET at(i) == IF i < 512 THEN e.vals[i + 1] ELSE OnesW
                k == e.k
                nst == (511 \div e.step) + 1
            IN /\ e.got = << at(k), at(k + 1), at(k), at(k), at(k + 1) >>
               /\ e.rest = 511 - k
               /\ Len(e.stepped) = (IF nst < 5 THEN nst ELSE 5)
               /\ \A j \in 1 .. Len(e.stepped) : e.stepped[j] = at((j - 1) * e.step)
      [] e.op = "tbl_zero" -> e.empty = 1 /\ e.nonzero_bytes = 0
      [] e.op = "tbl_one" -> e.empty_before = 0 /\ e.empty_after = 1 /\ e.nonzero_bytes = 0
      [] OTHER -> FALSE

Init == l = 1 /\ bad = 0
Next == /\ l <= Len(Rec) /\ l' = l + 1
        /\ bad' = IF Check(Rec[l]) THEN bad ELSE IF PrintT(<<"MISMATCH", l>>) THEN bad + 1 ELSE bad
Spec == Init /\ [][Next]_<<l, bad>>
Consumed == TLCGet("stats").diameter = Len(Rec) + 1
Post == IF Consumed THEN PrintT(<<"CONSUMED", Len(Rec)>>)
        ELSE PrintT(<<"STUCK", TLCGet("stats").diameter>>) /\ FALSE
=============================================================================
