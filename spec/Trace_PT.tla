------------------------------ MODULE Trace_PT ------------------------------
(***************************************************************************)
(* Trace validation for the page-table mappers (C01, C02, C09, C10, C11    *)
(* tokens, C20 dynamic part).                                              *)
(*                                                                         *)
(* One event per call of the real mapper.  The event carries the arguments,*)
(* the allocator conversation, the result and the RAW effect on simulated  *)
(* physical memory (every 8-byte slot that changed; full non-zero contents *)
(* of every frame the allocator handed out; frames the mapper asked a      *)
(* pointer for; frames released).  The call is replayed on the state       *)
(* machine of PageTables.tla; the event is accepted iff the result is one  *)
(* the specification allows and the observed raw memory equals the         *)
(* specification's next state.  `translate` events compare the three       *)
(* translate functions with the hardware walk of the specification's       *)
(* table memory and with the history (amap).                               *)
(*                                                                         *)
(* A trace holds many behaviours; `reset` starts one.  After a mismatch    *)
(* the rest of that behaviour is skipped (states have diverged).           *)
(***************************************************************************)
EXTENDS PageTables, Integers, Json, IOUtils

Rec == ndJsonDeserialize(IOEnv.TRACE)

VARIABLES l, bad, skip,
          tfs      \* cache: TableFramesOf(ent), recomputed only when ent changes

allvars == <<vars, l, bad, skip, tfs>>

FlagSet(w) == BitsOf(w)
Hist == {"ok"}

(* observed table memory after the call: previous memory + changed slots + fresh tables *)
RECURSIVE ApplyDiff(_, _, _)
ApplyDiff(m, d, k) ==
    IF k > Len(d) THEN m
    ELSE ApplyDiff(SetSlot(m, d[k][1], d[k][2], Decode(d[k][3])), d, k + 1)
RECURSIVE ApplySlots(_, _, _, _)
ApplySlots(m, f, sl, k) ==
    IF k > Len(sl) THEN m
    ELSE ApplySlots(SetSlot(m, f, sl[k][1], Decode(sl[k][2])), f, sl, k + 1)
RECURSIVE ApplyNew(_, _, _)
ApplyNew(m, nt, k) ==
    IF k > Len(nt) THEN m
    ELSE ApplyNew(ApplySlots(DropFrames(m, {nt[k][1]}), nt[k][1], nt[k][2], 1), nt, k + 1)
Observed(e) == ApplyNew(ApplyDiff(ent, e.diff, 1), e.newtabs, 1)

SeqSet(s) == { s[i] : i \in 1 .. Len(s) }
Allocated(e) == { e.allocs[j] : j \in { j \in 1 .. Len(e.allocs) : e.allocs[j] # NoFrame } }

(* C09: pointers requested only for frames that are page tables of this hierarchy (before or
   after the call) or were just handed out by the allocator; nothing else written *)
TouchOK(e, obs) ==
    /\ e.stray = << >>
    /\ (e.touched = << >> /\ e.diff = << >>) \/
       LET tf == IF obs = ent THEN tfs ELSE tfs \cup TableFramesOf(obs)
       IN /\ SeqSet(e.touched) \subseteq (tf \cup Allocated(e))
          /\ \A k \in 1 .. Len(e.diff) : e.diff[k][1] \in tf

(* C20 (dynamic): every recursive-region page the mapper touched is one of the pages the
   property names for this call, and the frame the software MMU reached there is the frame a
   hardware walk of the specification's tables (before or after the call) reaches *)
RootVA == FromIndices(0, rix, rix, rix, rix)
Reach(m, va) == LET w == WalkFrom(m, root, 4, va, TRUE, TRUE, FALSE)
                IN IF w.k = "mapped" THEN AlignDownV(PhysOf(w), OB) ELSE OnesW
RecPages(page, s) == {RootVA, RecP3(rix, page)}
                     \cup (IF s <= 1 THEN {RecP2(rix, page)} ELSE {})
                     \cup (IF s = 0 THEN {RecP1(rix, page)} ELSE {})
RecOK(e, obs, pages, anyInRegion) ==
    \A k \in 1 .. Len(e.mmu) :
       LET f == e.mmu[k]
       IN /\ f[3] = 0
          /\ (IF anyInRegion THEN IndexOf(f[1], 4) = rix ELSE f[1] \in pages)
          /\ (f[2] = Reach(ent, f[1]) \/ f[2] = Reach(obs, f[1]))

(* C11: flushing a page token = exactly one INVLPG of that page's start address; flushing a
   flush-all token = reload of CR3 with its current value; nothing is flushed otherwise *)
FlushOK(e, isOk, pageTok, allTok) ==
    IF e.flushed = 1 /\ isOk /\ pageTok
    THEN Len(e.fl) = 1 /\ e.fl[1].m = "invlpg" /\ e.fl[1].a = e.res.page
    ELSE IF e.flushed = 1 /\ isOk /\ allTok
    THEN /\ Cardinality({ k \in 1 .. Len(e.fl) : e.fl[k].m = "mov_to_cr" }) = 1
         /\ \A k \in 1 .. Len(e.fl) :
               /\ e.fl[k].m \in {"mov_from_cr", "mov_to_cr"} /\ e.fl[k].a = W(3)
               /\ (e.fl[k].m = "mov_to_cr" => e.fl[k].c = e.cr3)
    ELSE \A k \in 1 .. Len(e.fl) : e.fl[k].m = "mov_from_cr"      \* (RecursivePageTable::new reads CR3)

Same == [ok |-> TRUE, ent |-> ent, amap |-> amap, free |-> free, lc |-> << >>]
Fail == [ok |-> FALSE, ent |-> ent, amap |-> amap, free |-> free, lc |-> << >>]

NoAllocNoFree(e) == e.allocs = << >> /\ e.dealloc = << >> /\ e.newtabs = << >>

MapStep(e) ==
    LET F == FlagSet(e.F)
        PF == IF e.how = 0 THEN FlagSet(e.PF) ELSE F \cap {P, RW, US}
        obs == Observed(e)
        c0 == [s |-> e.s, page |-> e.page, frame |-> e.frame, F |-> F, PF |-> PF, extra |-> {}, W |-> {}]
        pr == MapWalk(ent, root, 4, e.allocs, 0, {}, c0)
        \* existing parent entries that count as widened: changed, or already containing PF
        Wd == { k \in pr.trav : \/ Lookup(obs, k[1], k[2]) # Lookup(ent, k[1], k[2])
                                \/ PF \subseteq Lookup(ent, k[1], k[2]).flags }
        \* what the mapper added to created parent entries, read off the first created entry
        cr == { k \in 1 .. Len(e.newtabs) : TRUE }
        xo == IF e.newtabs = << >> THEN {}
              ELSE LET f == e.newtabs[1][1]
                       links == { k \in 1 .. Len(e.diff) : Decode(e.diff[k][3]).addr = f }
                       nl == { j \in 2 .. Len(e.newtabs) :
                                 \E q \in 1 .. Len(e.newtabs[j - 1][2]) :
                                     Decode(e.newtabs[j - 1][2][q][2]).addr = e.newtabs[j][1] }
                   IN IF links = {} THEN {}
                      ELSE (Decode(e.diff[CHOOSE k \in links : TRUE][3]).flags \ PF) \cap {P, RW}
        c == [c0 EXCEPT !.extra = xo, !.W = Wd]
        r == MapSem(ent, amap, c, e.allocs)
        good == /\ MapPre(c, e.allocs)
                /\ e.res.k \in r.kinds
                /\ r.m = obs
                /\ (e.res.k = "Ok" => e.res.page = e.page)          \* C11: token names the page
    IN IF e.how = 2 /\ ~Canonical(e.frame)
       THEN (IF e.res.k = "panic" /\ obs = ent /\ e.allocs = << >> THEN Same ELSE Fail)  \* cannot be identity-mapped
       ELSE IF e.how = 2 /\ e.page # e.frame THEN Fail
       ELSE IF good
       THEN [ok |-> /\ TouchOK(e, obs) /\ e.dealloc = << >> /\ RecOK(e, obs, RecPages(e.page, e.s), FALSE)
                    /\ FlushOK(e, e.res.k = "Ok", TRUE, FALSE),
             ent |-> r.m, amap |-> r.am, free |-> free \ Allocated(e), lc |-> << >>]
       ELSE Fail

SimpleStep(e, r, checkFrame) ==
    LET obs == Observed(e)
    IN IF /\ e.res.k \in r.kinds
          /\ FlushOK(e, e.res.k = "Ok", e.op \in {"unmap", "update"}, e.op = "setflags")
          /\ r.m = obs
          /\ NoAllocNoFree(e)
          /\ (e.res.k = "Ok" => (e.res.page = r.page /\ (checkFrame => e.res.frame = r.frame)))
          /\ TouchOK(e, obs)
          /\ RecOK(e, obs, RecPages(e.page, e.s), FALSE)
       THEN [ok |-> TRUE, ent |-> r.m, amap |-> r.am, free |-> free, lc |-> << >>]
       ELSE Fail

UnmapStep(e) == IF FlagsPre(e.s, e.page, {P})
                THEN SimpleStep(e, UnmapSem(ent, amap, e.s, e.page), TRUE) ELSE Fail
UpdateStep(e) == IF FlagsPre(e.s, e.page, FlagSet(e.F)) /\ (e.s > 0 => HUGE \notin FlagSet(e.F))
                 THEN SimpleStep(e, UpdateSem(ent, amap, e.s, e.page, FlagSet(e.F)), FALSE) ELSE Fail
SetFlagsStep(e) == IF FlagsPre(e.s, e.page, FlagSet(e.F)) /\ ParentFlagsPre(FlagSet(e.F)) /\ e.K \in 2 .. 4
                   THEN SimpleStep(e, SetFlagsSem(ent, amap, e.s, e.page, e.K, FlagSet(e.F)), FALSE)
                   ELSE Fail
TranslatePageStep(e) ==
    IF FlagsPre(e.s, e.page, {P})
    THEN SimpleStep(e, TranslatePageSem(ent, amap, e.s, e.page), TRUE) ELSE Fail

(* flags as reported by translate: bit 12 of a 4 KiB leaf is an address bit, not a flag *)
ReportedFlags(t) == IF t.size = 0 THEN FlagSet(t.flags) \ {PATH} ELSE FlagSet(t.flags)

TranslateStep(e) ==
    LET w == Walk(ent, root, e.va)
        h == HistLookup(amap, e.va)
        t == e.x.t
        r == TranslatePageSem(ent, amap, 0, Containing(e.va, 0).v)
    IN IF /\ (IndexOf(e.va, 4) # rix => Proj(w) = h)              \* hardware walk = history (C01);
                                                                 \* inside the recursive slot the
                                                                 \* walk through the recursive
                                                                 \* entry alone decides
          /\ IF w.k = "mapped"
             THEN /\ t.k = "mapped" /\ t.frame = w.frame /\ t.size = w.size /\ t.off = w.off
                  /\ t.fsz = PowW(SizeBits(w.size))                 \* MappedFrame::size
                  /\ ReportedFlags(t) = w.flags
                  /\ e.x.ta = Ok(PhysOf(w))
             ELSE /\ t.k = "notmapped" /\ e.x.ta = None
          /\ e.x.tp.k \in r.kinds
          /\ (e.x.tp.k = "Ok" => e.x.tp.frame = r.frame)
          /\ NoAllocNoFree(e) /\ Observed(e) = ent /\ TouchOK(e, ent)
          /\ RecOK(e, ent, RecPages(Containing(e.va, 0).v, 0), FALSE)
       THEN Same ELSE Fail

CleanStep(e) ==
    LET D == { e.dealloc[j][1] : j \in 1 .. Len(e.dealloc) }
        T == Tables(ent)
        obs == Observed(e)
        exp == UnlinkT(ent, T, D)
    IN IF /\ e.k = "Ok"
          /\ Cardinality(D) = Len(e.dealloc)                       \* each frame once
          /\ \A j \in 1 .. Len(e.dealloc) : e.dealloc[j][2] = 0    \* unlinked before it is released
          /\ CleanOKT(ent, T, D, e.a, e.b)
          /\ obs = exp
          /\ e.allocs = << >> /\ e.newtabs = << >>
          /\ TouchOK(e, ent)
          /\ RecOK(e, obs, {}, TRUE)
       THEN [ok |-> TRUE, ent |-> exp, amap |-> amap, free |-> free \cup D, lc |-> << e.a, e.b >>]
       ELSE Fail

(* C20: the constructor accepts exactly a table at a recursive address whose slot of that index
   points (present) to the frame loaded as address-space root; the index it uses is that index *)
RptNewStep(e) ==
    LET i4 == IndexOf(e.addr, 4)
        recursive == IndexOf(e.addr, 3) = i4 /\ IndexOf(e.addr, 2) = i4 /\ IndexOf(e.addr, 1) = i4
        sl == Decode(e.slot)
        active == Present(sl) /\ sl.addr = AndW(e.cr3, AddrField)
        want == IF ~recursive THEN "NotRecursive" ELSE IF ~active THEN "NotActive" ELSE "Ok"
    IN IF /\ e.k = want
          /\ ((e.k = "Ok" /\ e.got >= 0) => e.got = i4)   \* got: parsed from the Debug output when it has
                                                          \* the expected shape (else -2: not observed here;
                                                          \* the index in use is observed by RecOK on every
                                                          \* operation of the recursive behaviours)
          /\ \A k \in 1 .. Len(e.instrs) : e.instrs[k].m = "mov_from_cr" /\ e.instrs[k].a = W(3)
       THEN Same ELSE Fail

Step(e) ==
    CASE e.op = "map" -> MapStep(e)
      [] e.op = "rpt_new" -> RptNewStep(e)
      [] e.op = "unmap" -> UnmapStep(e)
      [] e.op = "update" -> UpdateStep(e)
      [] e.op = "setflags" -> SetFlagsStep(e)
      [] e.op = "translate_page" -> TranslatePageStep(e)
      [] e.op = "translate" -> TranslateStep(e)
      [] e.op = "accessors" -> IF e.got = e.want THEN Same ELSE Fail   \* level_4_table(_mut), phys_offset
      [] e.op = "clean" -> CleanStep(e)
      [] OTHER -> Fail

Init == /\ l = 1 /\ bad = 0 /\ skip = TRUE
        /\ root = ZeroW /\ rix = 0 - 1 /\ ent = << >> /\ amap = << >> /\ free = {} /\ lastClean = << >>
        /\ tfs = {}

Next ==
    /\ l <= Len(Rec)
    /\ l' = l + 1
    /\ LET e == Rec[l] IN
       IF e.op = "reset"
       THEN LET base == IF e.rix >= 0 THEN (e.root :> (e.rix :> [addr |-> e.root, flags |-> {P, RW}]))
                                      ELSE << >>
                \* an injected pre-state (specification -> implementation replay): adopt the table
                \* memory and the mappings it contains
                m0 == ApplyDiff(base, e.mem, 1)
            IN /\ root' = e.root /\ rix' = e.rix
               /\ ent' = m0
               /\ amap' = IF e.mem = << >> THEN << >> ELSE DeriveAmapR(m0, e.root, e.rix)
               /\ free' = SeqSet(e.pool) /\ lastClean' = << >>
               /\ skip' = FALSE /\ bad' = bad
               /\ tfs' = IF e.mem = << >> THEN {e.root} ELSE TableFramesOfR(m0, e.root, e.rix)
       ELSE IF e.op \in {"crash", "uncaught_panic"}        \* the crate crashed the harness: never skipped
       THEN /\ PrintT(<<"MISMATCH", l>>) /\ bad' = bad + 1 /\ skip' = TRUE /\ UNCHANGED <<vars, tfs>>
       ELSE IF skip THEN UNCHANGED <<vars, bad, skip, tfs>>
       ELSE LET st == Step(e) IN
            IF st.ok
            THEN /\ ent' = st.ent /\ amap' = st.amap /\ free' = st.free /\ lastClean' = st.lc
                 /\ tfs' = IF st.ent = ent THEN tfs ELSE TableFramesOf(st.ent)
                 /\ UNCHANGED <<root, rix, bad, skip>>
            ELSE /\ PrintT(<<"MISMATCH", l>>)
                 /\ bad' = bad + 1 /\ skip' = TRUE
                 /\ UNCHANGED <<vars, tfs>>

Spec == Init /\ [][Next]_allvars

Consumed == TLCGet("stats").diameter = Len(Rec) + 1
Post == IF Consumed THEN PrintT(<<"CONSUMED", Len(Rec)>>)
        ELSE PrintT(<<"STUCK", TLCGet("stats").diameter>>) /\ FALSE
=============================================================================
