CONSTANTS
  LB = 3
  VB = 10
  PB = 11
  OB = 2
  IB = 2
SPECIFICATION ProgSpec
INVARIANT ProgInv
VIEW ProgView
CHECK_DEADLOCK FALSE
