----------------------------- MODULE IntrProof -----------------------------
(***************************************************************************)
(* Unbounded companion of MC_Intr (C17): the same actions without the      *)
(* depth and step bounds, and a TLAPS proof that the two history flags     *)
(* (every closure started with the flag clear; every exit restored the     *)
(* flag found at entry) are invariant for EVERY nesting depth.             *)
(* MC_Intr.tla is what TLC explores and what the traces are validated      *)
(* against (Trace_Cpu.IfStep follows the same steps); this module only     *)
(* adds the inductive argument.  Checked with `tlapm` (tools/prove.sh).    *)
(***************************************************************************)
EXTENDS Naturals, Sequences, TLAPS

VARIABLES ifl, stack, okExit, okBody
vars == <<ifl, stack, okExit, okBody>>

Frame == [saved : {0, 1}, pc : {"saved", "body", "done"}, en : {0, 1}]

Init == ifl \in {0, 1} /\ stack = <<>> /\ okExit = TRUE /\ okBody = TRUE

Top == stack[Len(stack)]
SetTop(f) == [stack EXCEPT ![Len(stack)] = f]

Enter ==
    /\ (IF stack = <<>> THEN TRUE ELSE Top.pc = "body")
    /\ stack' = Append(stack, [saved |-> ifl, pc |-> "saved", en |-> 0])
    /\ UNCHANGED <<ifl, okExit, okBody>>
DisableIfSaved ==
    /\ stack # <<>> /\ Top.pc = "saved"
    /\ ifl' = IF Top.saved = 1 THEN 0 ELSE ifl
    /\ stack' = SetTop([Top EXCEPT !.pc = "body"])
    /\ okBody' = (okBody /\ ifl' = 0)
    /\ UNCHANGED okExit
BodyDisable ==
    /\ stack # <<>> /\ Top.pc = "body"
    /\ ifl' = 0
    /\ stack' = SetTop([Top EXCEPT !.en = 0])
    /\ UNCHANGED <<okExit, okBody>>
BodyEnable ==
    /\ stack # <<>> /\ Top.pc = "body"
    /\ ifl' = 1
    /\ stack' = SetTop([Top EXCEPT !.en = 1])
    /\ UNCHANGED <<okExit, okBody>>
BodyReturn ==
    /\ stack # <<>> /\ Top.pc = "body" /\ Top.en = 0 /\ ifl = 0
    /\ stack' = SetTop([Top EXCEPT !.pc = "done"])
    /\ UNCHANGED <<ifl, okExit, okBody>>
EnableIfSaved ==
    /\ stack # <<>> /\ Top.pc = "done"
    /\ ifl' = IF Top.saved = 1 THEN 1 ELSE ifl
    /\ okExit' = (okExit /\ ifl' = Top.saved)
    /\ stack' = SubSeq(stack, 1, Len(stack) - 1)
    /\ UNCHANGED okBody
TopEnable == stack = <<>> /\ ifl' = 1 /\ UNCHANGED <<stack, okExit, okBody>>
TopDisable == stack = <<>> /\ ifl' = 0 /\ UNCHANGED <<stack, okExit, okBody>>

Next == Enter \/ DisableIfSaved \/ BodyDisable \/ BodyEnable \/ BodyReturn \/ EnableIfSaved
        \/ TopEnable \/ TopDisable

Spec == Init /\ [][Next]_vars

Inv == okExit /\ okBody

(* the inductive strengthening: types; below the top every frame is executing its body; a   *)
(* frame that has only read the flag still sees that flag; a finished body left it clear.    *)
IndInv ==
    /\ ifl \in {0, 1}
    /\ stack \in Seq(Frame)
    /\ okExit = TRUE /\ okBody = TRUE
    /\ \A i \in 1 .. Len(stack) : i < Len(stack) => stack[i].pc = "body"
    /\ stack # <<>> => /\ (Top.pc = "saved" => ifl = Top.saved)
                       /\ (Top.pc = "done" => ifl = 0)

LEMMA InitInd == Init => IndInv
  BY DEF Init, IndInv, Frame

LEMMA StepInd == IndInv /\ [Next]_vars => IndInv'
<1> SUFFICES ASSUME IndInv, [Next]_vars PROVE IndInv'
  OBVIOUS
<1>0. /\ ifl \in {0, 1} /\ stack \in Seq(Frame) /\ okExit = TRUE /\ okBody = TRUE
      /\ \A i \in 1 .. Len(stack) : i < Len(stack) => stack[i].pc = "body"
      /\ stack # <<>> => /\ (Top.pc = "saved" => ifl = Top.saved) /\ (Top.pc = "done" => ifl = 0)
  BY DEF IndInv
<1>t. stack # <<>> => Len(stack) \in Nat /\ Len(stack) >= 1 /\ Top \in Frame
  BY <1>0 DEF Top
<1>1. CASE Enter
  <2>1. stack' = Append(stack, [saved |-> ifl, pc |-> "saved", en |-> 0]) /\ ifl' = ifl /\ okExit' = okExit /\ okBody' = okBody
    BY <1>1 DEF Enter
  <2>2. [saved |-> ifl, pc |-> "saved", en |-> 0] \in Frame
    BY <1>0 DEF Frame
  <2>3. stack' \in Seq(Frame) /\ Len(stack') = Len(stack) + 1 /\ stack' # <<>>
    BY <2>1, <2>2, <1>0
  <2>4. Top' = [saved |-> ifl, pc |-> "saved", en |-> 0]
    BY <2>1, <2>2, <1>0 DEF Top
  <2>5. \A i \in 1 .. Len(stack') : i < Len(stack') => stack'[i].pc = "body"
    <3> SUFFICES ASSUME NEW i \in 1 .. Len(stack'), i < Len(stack') PROVE stack'[i].pc = "body"
      OBVIOUS
    <3>1. i \in 1 .. Len(stack) /\ stack'[i] = stack[i]
      BY <2>1, <2>3, <1>0
    <3>2. CASE i < Len(stack)
      BY <3>1, <3>2, <1>0
    <3>3. CASE i = Len(stack)
      <4>1. stack # <<>>
        BY <3>1, <3>3, <1>0
      <4>2. Top.pc = "body"
        BY <4>1, <1>1 DEF Enter
      <4> QED BY <3>1, <3>3, <4>2 DEF Top
    <3> QED BY <3>1, <3>2, <3>3, <1>0
  <2> QED BY <2>1, <2>3, <2>4, <2>5, <1>0 DEF IndInv
<1>2. CASE DisableIfSaved
  <2>1. stack # <<>> /\ Top.pc = "saved" /\ ifl = Top.saved
    BY <1>2, <1>0 DEF DisableIfSaved
  <2>2. ifl' = 0
    BY <1>2, <2>1, <1>0 DEF DisableIfSaved
  <2>3. [Top EXCEPT !.pc = "body"] \in Frame /\ [Top EXCEPT !.pc = "body"].pc = "body"
    BY <1>t, <2>1 DEF Frame
  <2>4. stack' = [stack EXCEPT ![Len(stack)] = [Top EXCEPT !.pc = "body"]] /\ okBody' = TRUE /\ okExit' = okExit
    BY <1>2, <2>2, <1>0 DEF DisableIfSaved, SetTop
  <2>5. stack' \in Seq(Frame) /\ Len(stack') = Len(stack) /\ stack' # <<>>
    BY <2>4, <2>3, <2>1, <1>0, <1>t
  <2>6. Top'.pc = "body"
    BY <2>4, <2>5, <2>3, <2>1, <1>t, <1>0 DEF Top
  <2>7. \A i \in 1 .. Len(stack') : i < Len(stack') => stack'[i].pc = "body"
    BY <2>4, <2>5, <1>0, <1>t, <2>1
  <2> QED BY <2>2, <2>4, <2>5, <2>6, <2>7, <1>0 DEF IndInv
<1>3. CASE BodyDisable
  <2>1. stack # <<>> /\ Top.pc = "body" /\ ifl' = 0 /\ okExit' = okExit /\ okBody' = okBody
    BY <1>3 DEF BodyDisable
  <2>3. [Top EXCEPT !.en = 0] \in Frame /\ [Top EXCEPT !.en = 0].pc = "body"
    BY <1>t, <2>1 DEF Frame
  <2>4. stack' = [stack EXCEPT ![Len(stack)] = [Top EXCEPT !.en = 0]]
    BY <1>3 DEF BodyDisable, SetTop
  <2>5. stack' \in Seq(Frame) /\ Len(stack') = Len(stack) /\ stack' # <<>>
    BY <2>4, <2>3, <2>1, <1>0, <1>t
  <2>6. Top'.pc = "body"
    BY <2>4, <2>5, <2>3, <2>1, <1>t, <1>0 DEF Top
  <2>7. \A i \in 1 .. Len(stack') : i < Len(stack') => stack'[i].pc = "body"
    BY <2>4, <2>5, <1>0, <1>t, <2>1
  <2> QED BY <2>1, <2>5, <2>6, <2>7, <1>0 DEF IndInv
<1>4. CASE BodyEnable
  <2>1. stack # <<>> /\ Top.pc = "body" /\ ifl' = 1 /\ okExit' = okExit /\ okBody' = okBody
    BY <1>4 DEF BodyEnable
  <2>3. [Top EXCEPT !.en = 1] \in Frame /\ [Top EXCEPT !.en = 1].pc = "body"
    BY <1>t, <2>1 DEF Frame
  <2>4. stack' = [stack EXCEPT ![Len(stack)] = [Top EXCEPT !.en = 1]]
    BY <1>4 DEF BodyEnable, SetTop
  <2>5. stack' \in Seq(Frame) /\ Len(stack') = Len(stack) /\ stack' # <<>>
    BY <2>4, <2>3, <2>1, <1>0, <1>t
  <2>6. Top'.pc = "body"
    BY <2>4, <2>5, <2>3, <2>1, <1>t, <1>0 DEF Top
  <2>7. \A i \in 1 .. Len(stack') : i < Len(stack') => stack'[i].pc = "body"
    BY <2>4, <2>5, <1>0, <1>t, <2>1
  <2> QED BY <2>1, <2>5, <2>6, <2>7, <1>0 DEF IndInv
<1>5. CASE BodyReturn
  <2>1. stack # <<>> /\ Top.pc = "body" /\ ifl = 0 /\ ifl' = ifl /\ okExit' = okExit /\ okBody' = okBody
    BY <1>5 DEF BodyReturn
  <2>3. [Top EXCEPT !.pc = "done"] \in Frame /\ [Top EXCEPT !.pc = "done"].pc = "done"
    BY <1>t, <2>1 DEF Frame
  <2>4. stack' = [stack EXCEPT ![Len(stack)] = [Top EXCEPT !.pc = "done"]]
    BY <1>5 DEF BodyReturn, SetTop
  <2>5. stack' \in Seq(Frame) /\ Len(stack') = Len(stack) /\ stack' # <<>>
    BY <2>4, <2>3, <2>1, <1>0, <1>t
  <2>6. Top'.pc = "done"
    BY <2>4, <2>5, <2>3, <2>1, <1>t, <1>0 DEF Top
  <2>7. \A i \in 1 .. Len(stack') : i < Len(stack') => stack'[i].pc = "body"
    BY <2>4, <2>5, <1>0, <1>t, <2>1
  <2> QED BY <2>1, <2>5, <2>6, <2>7, <1>0 DEF IndInv
<1>6. CASE EnableIfSaved
  <2>1. stack # <<>> /\ Top.pc = "done" /\ ifl = 0 /\ okBody' = okBody
    BY <1>6, <1>0 DEF EnableIfSaved
  <2>2. Top.saved \in {0, 1}
    BY <1>t, <2>1 DEF Frame
  <2>3. ifl' = Top.saved /\ ifl' \in {0, 1}
    BY <1>6, <2>1, <2>2 DEF EnableIfSaved
  <2>4. okExit' = TRUE
    BY <1>6, <2>3, <1>0 DEF EnableIfSaved
  <2>5. stack' = SubSeq(stack, 1, Len(stack) - 1)
    BY <1>6 DEF EnableIfSaved
  <2>6. stack' \in Seq(Frame) /\ Len(stack') = Len(stack) - 1 /\ \A i \in 1 .. Len(stack) - 1 : stack'[i] = stack[i]
    BY <2>5, <1>0, <1>t, <2>1
  <2>7. \A i \in 1 .. Len(stack') : i < Len(stack') => stack'[i].pc = "body"
    BY <2>6, <1>0, <1>t, <2>1
  <2>8. stack' # <<>> => Top'.pc = "body"
    <3> SUFFICES ASSUME stack' # <<>> PROVE Top'.pc = "body"
      OBVIOUS
    <3>1. Len(stack') \in 1 .. Len(stack) - 1 /\ Len(stack') < Len(stack)
      BY <2>6, <1>t, <2>1
    <3>2. stack'[Len(stack')] = stack[Len(stack')]
      BY <2>6, <3>1
    <3> QED BY <3>1, <3>2, <1>0, <1>t, <2>1 DEF Top
  <2> QED BY <2>1, <2>3, <2>4, <2>6, <2>7, <2>8, <1>0 DEF IndInv
<1>7. CASE TopEnable
  BY <1>7, <1>0 DEF TopEnable, IndInv
<1>8. CASE TopDisable
  BY <1>8, <1>0 DEF TopDisable, IndInv
<1>9. CASE UNCHANGED vars
  BY <1>9, <1>0 DEF vars, IndInv, Top
<1> QED BY <1>1, <1>2, <1>3, <1>4, <1>5, <1>6, <1>7, <1>8, <1>9 DEF Next

THEOREM Safety == Spec => []Inv
<1>1. IndInv => Inv
  BY DEF IndInv, Inv
<1> QED BY InitInd, StepInd, <1>1, PTL DEF Spec
=============================================================================
