--------------------------------- MODULE Gdt ---------------------------------
(***************************************************************************)
(* The global descriptor table as a state machine (C14) and the            *)
(* architectural segment / system descriptor formats (C15; Intel SDM       *)
(* vol. 3 ch. 3.4.5, 7.2.3; AMD APM vol. 2 ch. 4.7, 4.8).                  *)
(***************************************************************************)
EXTENDS Addr, TLC

VARIABLES tab,      \* the used slots, <<0, d1, d2, ...>> (64-bit words)
          max       \* capacity (const generic MAX)

(* descriptor: [sys |-> BOOLEAN, lo |-> Word, hi |-> Word] *)
Dpl(lo) == Field(lo, 45, 47)
Slots(d) == IF d.sys THEN 2 ELSE 1
Fits(t, m, d) == Len(t) + Slots(d) <= m

(* selector: index (bits 3..15) = first slot (0-based), TI (bit 2) = 0 (GDT), RPL (bits 0..1) = DPL *)
Selector(index, rpl) == index * 8 + rpl

AppendSem(t, m, d) ==
    IF Fits(t, m, d)
    THEN [k |-> "ok", sel |-> Selector(Len(t), Dpl(d.lo)),
          tab |-> IF d.sys THEN t \o << d.lo, d.hi >> ELSE Append(t, d.lo)]
    ELSE [k |-> "panic", sel |-> 0, tab |-> t]                 \* refused: table unchanged

Limit(t) == 8 * Len(t) - 1

FromRawSem(sl, m) ==
    IF Len(sl) > 0 /\ Len(sl) <= m /\ sl[1] = ZeroW THEN [k |-> "ok", tab |-> sl]
    ELSE [k |-> "panic", tab |-> << >>]

TableInv == /\ Len(tab) >= 1 /\ tab[1] = ZeroW /\ Len(tab) <= max

-----------------------------------------------------------------------------
(* descriptor formats *)

(* 16-byte system descriptor (lo, hi) *)
DecodeSys(lo, hi) ==
    [ base |-> OrW(OrW(Shr(AndW(lo, MaskW(16, 40)), 16), Shl(Shr(AndW(lo, MaskW(56, 64)), 56), 24)),
                   Shl(AndW(hi, LowMask(32)), 32)),
      limit |-> Field(lo, 0, 16) + 65536 * Field(lo, 48, 52),
      type |-> Field(lo, 40, 44), s |-> Bit(lo, 44), dpl |-> Field(lo, 45, 47), p |-> Bit(lo, 47),
      avl |-> Bit(lo, 52), l |-> Bit(lo, 53), db |-> Bit(lo, 54), g |-> Bit(lo, 55),
      hiReserved |-> Shr(hi, 32) ]

AvailableTss64 == 9
TssDescriptorOK(ptr, lo, hi) ==
    LET d == DecodeSys(lo, hi)
    IN /\ d.base = ptr /\ d.limit = 103                         \* 0x67 = size of the TSS - 1
       /\ d.type = AvailableTss64 /\ d.s = 0 /\ d.dpl = 0 /\ d.p = 1
       /\ d.avl = 0 /\ d.l = 0 /\ d.db = 0 /\ d.g = 0
       /\ d.hiReserved = ZeroW                                   \* incl. the must-be-zero type field of the upper half

(* 8-byte code/data descriptor *)
DecodeUser(lo) ==
    [ accessed |-> Bit(lo, 40), rw |-> Bit(lo, 41), ce |-> Bit(lo, 42), exec |-> Bit(lo, 43),
      s |-> Bit(lo, 44), dpl |-> Field(lo, 45, 47), p |-> Bit(lo, 47),
      l |-> Bit(lo, 53), db |-> Bit(lo, 54), g |-> Bit(lo, 55) ]

(* what the names of the predefined descriptors state *)
PresetOK(name, lo) ==
    LET d == DecodeUser(lo)
        common == d.p = 1 /\ d.s = 1
    IN CASE name = "kernel_code64" -> common /\ d.exec = 1 /\ d.l = 1 /\ d.db = 0 /\ d.dpl = 0
         [] name = "kernel_code32" -> common /\ d.exec = 1 /\ d.l = 0 /\ d.db = 1 /\ d.dpl = 0
         [] name = "kernel_data"   -> common /\ d.exec = 0 /\ d.rw = 1 /\ d.l = 0 /\ d.dpl = 0
         [] name = "user_code64"   -> common /\ d.exec = 1 /\ d.l = 1 /\ d.db = 0 /\ d.dpl = 3
         [] name = "user_code32"   -> common /\ d.exec = 1 /\ d.l = 0 /\ d.db = 1 /\ d.dpl = 3
         [] name = "user_data"     -> common /\ d.exec = 0 /\ d.rw = 1 /\ d.l = 0 /\ d.dpl = 3
         [] OTHER -> FALSE
=============================================================================
