-------------------------------- MODULE MC_PT --------------------------------
(***************************************************************************)
(* Design check of PageTables.tla: the full state machine over a small     *)
(* universe of indices, frames and flag sets.  TLC explores EVERY          *)
(* reachable hierarchy and, from each, EVERY call (map of the three sizes  *)
(* with every allocator failure schedule, unmap, update_flags,             *)
(* set_flags_p4/p3/p2, clean_up of every range of the universe) and checks *)
(* C01 (walk = history, parent rights), C02 (errors are no-ops, no phantom *)
(* success), C09 (allocation bounds, tree shape) and C10 (clean-up).       *)
(***************************************************************************)
EXTENDS PageTables, Json

CONSTANTS I4, I3, I2, I1,      \* index universes per level
          NTF,                 \* number of table frames in the allocator pool
          LeafFs, ParentFs,    \* flag sets in play (sets of sets of bit numbers)
          RIdx,                \* recursive index, or RNone
          Extras               \* what a mapper may add to created parent entries: subsets of {P, RW}

VARIABLE last                  \* the last call and its outcome (hidden from the fingerprint by VIEW)

RNone == 0 - 1                                            \* cfg: RIdx <- RNone (no recursive slot)
RootFrame == W(1048576)                                   \* 0x100000
(* allocator pool, handed out in ascending order: the first new table gets 0x1000, the second a
   1 GiB-aligned frame, the third a 2 MiB-aligned one - so a level-2 table can sit in a frame that
   would be a valid 1 GiB data frame and a level-1 table in one that would be a valid 2 MiB data
   frame (the interesting case for operations of the wrong size on a table-pointer slot) *)
TableFramePool == << W(4096), W(1073741824), W(1073741824 + 2097152), W(8192), W(12288) >>
TableFrames == { TableFramePool[k] : k \in 1 .. NTF }
DataFrames(s) == CASE s = 0 -> { W(36864), W(40960) }     \* 0x9000, 0xa000
                   [] s = 1 -> { W(6291456) }             \* 0x600000
                   [] s = 2 -> { Shl(W(1), 31) }          \* 0x80000000

Pages(s) == CASE s = 0 -> { FromIndices(0, a, b, c, d) : a \in I4, b \in I3, c \in I2, d \in I1 }
              [] s = 1 -> { FromIndices(1, a, b, c, 0) : a \in I4, b \in I3, c \in I2 }
              [] s = 2 -> { FromIndices(2, a, b, 0, 0) : a \in I4, b \in I3 }

(* probe addresses: inside every 4 KiB page of the universe, plus one 4 KiB page per 2 MiB   *)
(* page whose level-1 index is outside the universe, and a neighbour outside every universe *)
Probes == { OrW(p, W(291)) : p \in Pages(0) }
          \cup { OrW(p, W(5 * 4096 + 16)) : p \in Pages(1) }
          \cup { OrW(p, W(7 * 2097152 + 4096 + 1)) : p \in Pages(2) }

MinFrame(S) == CHOOSE f \in S : \A g \in S : Le(f, g)
RECURSIVE Sorted(_)
Sorted(S) == IF S = {} THEN <<>> ELSE LET f == MinFrame(S) IN <<f>> \o Sorted(S \ {f})
(* the allocator hands out the smallest free frames in order (frames are interchangeable),  *)
(* and may fail at any request: 7 schedules                                                 *)
AllocSeqs ==
    LET fs == Sorted(free)
        pre(k) == IF k <= Len(fs) THEN SubSeq(fs, 1, k) ELSE fs
    IN { pre(k) : k \in 0 .. 3 } \cup { pre(k) \o << NoFrame >> : k \in 0 .. 2 }

UsedFrames(allocs) == { allocs[j] : j \in { j \in 1 .. Len(allocs) : allocs[j] # NoFrame } }

Init ==
    /\ root = RootFrame
    /\ rix = RIdx
    /\ ent = IF RIdx >= 0 THEN (RootFrame :> (RIdx :> [addr |-> RootFrame, flags |-> {P, RW}]))
                       ELSE << >>
    /\ amap = << >>
    /\ free = TableFrames
    /\ lastClean = << >>
    /\ last = [op |-> "init", s |-> 0, page |-> ZeroW, kind |-> "Ok", used |-> 0, PF |-> {}, K |-> 0,
               frame |-> ZeroW, F |-> {}, allocs |-> << >>, b |-> ZeroW]

MapAct ==
    \E s \in SizeClass : \E page \in Pages(s) : \E frame \in DataFrames(s) :
    \E F \in LeafFs : \E PF \in ParentFs : \E extra \in Extras : \E allocs \in AllocSeqs :
      LET c0 == [s |-> s, page |-> page, frame |-> frame, F |-> F, PF |-> PF, extra |-> extra, W |-> {}]
          pr == MapWalk(ent, root, 4, allocs, 0, {}, c0)
      IN \E Wd \in (IF pr.ok THEN {pr.trav} ELSE SUBSET pr.trav) :
           LET c == [c0 EXCEPT !.W = Wd]
               r == MapSem(ent, amap, c, allocs)
           IN /\ MapPre(c, allocs)
              /\ r.kinds # {}
              /\ ent' = r.m /\ amap' = r.am
              /\ free' = free \ UsedFrames(allocs)
              /\ lastClean' = << >>
              /\ \E kd \in r.kinds :
                   last' = [op |-> "map", s |-> s, page |-> page, kind |-> kd, used |-> r.used,
                            PF |-> PF, K |-> 0, frame |-> frame, F |-> F, allocs |-> allocs, b |-> ZeroW]
              /\ UNCHANGED <<root, rix>>

Simple(op, r, s, page, K, F) ==
    /\ ent' = r.m /\ amap' = r.am
    /\ \E kd \in r.kinds : last' = [op |-> op, s |-> s, page |-> page, kind |-> kd, used |-> 0,
                                   PF |-> {}, K |-> K, frame |-> ZeroW, F |-> F, allocs |-> << >>, b |-> ZeroW]
    /\ lastClean' = << >>
    /\ UNCHANGED <<root, rix, free>>

UnmapAct == \E s \in SizeClass : \E page \in Pages(s) :
                Simple("unmap", UnmapSem(ent, amap, s, page), s, page, 0, {})
UpdateAct == \E s \in SizeClass : \E page \in Pages(s) : \E F \in LeafFs :
                /\ FlagsPre(s, page, F)           \* the PAT bit only on huge leaves
                /\ Simple("update", UpdateSem(ent, amap, s, page, F), s, page, 0, F)
SetFlagsAct == \E s \in SizeClass : \E page \in Pages(s) : \E K \in 2 .. 4 : \E F \in ParentFs :
                Simple("setflags", SetFlagsSem(ent, amap, s, page, K, F), s, page, K, F)
TranslatePageAct == \E s \in SizeClass : \E page \in Pages(s) :
                Simple("translate_page", TranslatePageSem(ent, amap, s, page), s, page, 0, {})

(* ranges: whole address space, every pair of 4 KiB pages of the universe (+ the page after
   each) - a <= b and reversed (empty) ones alike *)
RangeBounds == Pages(0) \cup { Add(p, W(4096)).v : p \in Pages(0) }
CleanRanges == { <<FullRangeA, FullRangeB>>, <<FullRangeB, FullRangeA>> }
               \cup (RangeBounds \X RangeBounds)
CleanAct ==
    LET T == Tables(ent)
    IN \E rg \in CleanRanges :
       \E D \in SUBSET { t.f : t \in { t \in T : Overlaps(t, rg[1], rg[2]) } } :
          /\ CleanOKT(ent, T, D, rg[1], rg[2])
          /\ ent' = UnlinkT(ent, T, D)
          /\ free' = free \cup D
          /\ lastClean' = << rg[1], rg[2] >>
          /\ last' = [op |-> "clean", s |-> Cardinality(D), page |-> rg[1], kind |-> "Ok", used |-> 0,
                      PF |-> {}, K |-> 0, frame |-> ZeroW, F |-> {}, allocs |-> << >>, b |-> rg[2]]
          /\ UNCHANGED <<root, rix, amap>>

Next == MapAct \/ UnmapAct \/ UpdateAct \/ SetFlagsAct \/ TranslatePageAct \/ CleanAct

Spec == Init /\ [][Next]_<<vars, last>>

View == vars

(* Stimuli for specification -> implementation replay: one line per explored transition with the
   pre-state (table memory as <<frame, index, entry>> triples, free frames) and the call.      *)
MemTriples(m) == UNION { { << f, i, m[f][i].addr, m[f][i].flags >> : i \in DOMAIN m[f] } : f \in DOMAIN m }
StimDump ==
    PrintT(<< "STIM", ToJson([ root |-> root, rix |-> rix, mem |-> MemTriples(ent), free |-> free, tables |-> TableFramesOf(ent),
                                op |-> last'.op, s |-> last'.s, page |-> last'.page, frame |-> last'.frame,
                                F |-> last'.F, PF |-> last'.PF, K |-> last'.K, allocs |-> last'.allocs,
                                b |-> last'.b ]) >>)

-----------------------------------------------------------------------------
(* state invariants *)

WalkIsHistory == \A va \in Probes : WalkIsHistoryAt(va)                     \* C01
Shape == TypeOK /\ TreeShape /\ NoOverlap                                  \* C09 / C01 precondition
Inv == WalkIsHistory /\ Shape

(* action properties *)
SameTranslations == \A va \in Probes : Proj(Walk(ent', root', va)) = Proj(Walk(ent, root, va))

(* C02: an error changes no translation and records no mapping *)
ErrorIsNoOp == [][ last'.kind # "Ok" => (SameTranslations /\ amap' = amap) ]_<<vars, last>>

(* C02: success for a mapping of that size only if the history holds one *)
NoPhantomSuccess ==
    [][ (last'.op \in {"unmap", "update", "translate_page"} /\ last'.kind = "Ok")
          => <<last'.s, last'.page>> \in DOMAIN amap ]_<<vars, last>>

(* C01: after a successful map every entry above the leaf carries the requested parent flags *)
PathFlagSets(m, va, s) ==
    LET RECURSIVE go(_, _)
        go(cur, lvl) == IF lvl = TL(s) THEN {}
                        ELSE LET e == Lookup(m, cur, IndexOf(va, lvl))
                             IN {e.flags} \cup go(e.addr, lvl - 1)
    IN go(root, 4)
ParentRights ==
    [][ (last'.op = "map" /\ last'.kind = "Ok")
          => \A fl \in PathFlagSets(ent', last'.page, last'.s) : last'.PF \subseteq fl ]_<<vars, last>>

(* C09: at most 1/2/3 frames for a 1 GiB / 2 MiB / 4 KiB mapping; only map allocates; only
   clean-up releases; a parent-flag change keeps all translations *)
AllocBound ==
    [][ /\ (last'.op = "map" => last'.used <= 3 - last'.s)
        /\ (last'.op # "map" => free \subseteq free')
        /\ (last'.op # "clean" => free' \subseteq free)
        /\ (last'.op = "setflags" => (SameTranslations /\ amap' = amap)) ]_<<vars, last>>

(* C10: clean-up never changes a translation *)
CleanKeepsTranslations == [][ last'.op = "clean" => SameTranslations ]_<<vars, last>>

(* the same five properties as one formula (SameTranslations is evaluated once per step) *)
StepProps ==
    [][ LET same == SameTranslations IN
        /\ (last'.kind # "Ok" => (same /\ amap' = amap))
        /\ ((last'.op \in {"unmap", "update", "translate_page"} /\ last'.kind = "Ok")
              => <<last'.s, last'.page>> \in DOMAIN amap)
        /\ ((last'.op = "map" /\ last'.kind = "Ok")
              => \A fl \in PathFlagSets(ent', last'.page, last'.s) : last'.PF \subseteq fl)
        /\ (last'.op = "map" => last'.used <= 3 - last'.s)
        /\ (last'.op # "map" => free \subseteq free')
        /\ (last'.op # "clean" => free' \subseteq free)
        /\ (last'.op \in {"setflags", "clean", "translate_page"} => (same /\ amap' = amap))
      ]_<<vars, last>>
=============================================================================
