CONSTANTS
  LB = 2
  VB = 6
  PB = 7
  OB = 2
  IB = 1
SPECIFICATION ProgSpec
INVARIANT ProgInv
VIEW ProgView
CHECK_DEADLOCK FALSE
