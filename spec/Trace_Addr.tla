----------------------------- MODULE Trace_Addr -----------------------------
(***************************************************************************)
(* Trace validation for the address algebra (C03-C07, pure part of C20).   *)
(*                                                                         *)
(* The Rust harness records one ndjson event per call of the real crate    *)
(* (operation, raw 64-bit operands as 4 x 16-bit limbs, raw result or      *)
(* panic).  Each event must be explained by the operators of Addr.tla      *)
(* instantiated at the real widths (LB = 16, VB = 48, PB = 52, OB = 12,    *)
(* IB = 9) - the same operator text MC_Addr checks exhaustively at scaled  *)
(* widths.  Events are independent of each other, so a mismatch is         *)
(* reported (MISMATCH <line>) and validation continues with the next line; *)
(* the run is accepted iff every line was consumed and none mismatched.    *)
(***************************************************************************)
EXTENDS Addr, Integers, Json, IOUtils, TLC

Rec == ndJsonDeserialize(IOEnv.TRACE)

VARIABLES l, bad

Small(w) == w[1] + LM * w[2]              \* small word -> nat (value < 2^31)

AddrMaskW == MaskW(OB, PB)                \* address field of a page-table entry

RangeOK(e, virt) ==
    LET st == e.a
        en == e.b
        s == e.s
        incl == (e.incl = 1)
        L == RangeLen(st, en, s, incl)
    IN IF virt /\ ~SameHalf(st, en) THEN TRUE            \* outside the property (C07)
       ELSE /\ e.len = Ok(L)
            /\ e.size = Ok(RangeSize(st, en, s, incl))
            /\ (e.iter = 1 =>
                  /\ e.itk = "ok"
                  /\ W(Len(e.items)) = L
                  /\ \A i \in 1 .. Len(e.items) : e.items[i] = RangeItem(st, s, i))

(* iterator adaptors over a short range agree with plain iteration (cnt items, validated by the range event) *)
AdaptOK(e, virt) ==
    LET n == e.cnt
        m == e.m
        Item(i) == RangeItem(e.a, e.s, i)
        AtPos(k) == IF k < n THEN Ok(Item(k + 1)) ELSE None
    IN IF virt /\ ~SameHalf(e.a, e.b) THEN TRUE
       ELSE /\ \A j \in 1 .. Len(e.ks) : e.nth[j] = AtPos(e.ks[j]) /\ e.skip[j] = AtPos(e.ks[j])
            /\ e.count = Ok(W(n))
            /\ e.last = (IF n = 0 THEN None ELSE Ok(Item(n)))
            /\ e.stepk = "ok" /\ Len(e.stepped) = (n + m - 1) \div m
            /\ \A i \in 1 .. Len(e.stepped) : e.stepped[i] = Item((i - 1) * m + 1)
            /\ e.hint_lo <= n /\ (e.hint_hi = -1 \/ e.hint_hi >= n)

Blk(e, name, i) == e[name][i]

SmallCodecsOK(e) ==
    \A d \in 1 .. 256 :
       LET n == e.base + d - 1
       IN /\ e.idx_new[d]   = (IF IdxNew(n).k = "ok" THEN Small(IdxNew(n).v) ELSE -1)
          /\ e.idx_trunc[d] = Small(IdxTrunc(n).v)
          /\ e.off_new[d]   = (IF OffNew(n).k = "ok" THEN Small(OffNew(n).v) ELSE -1)
          /\ e.off_trunc[d] = Small(OffTrunc(n).v)

Unconstrained(r, valid(_)) == r.k = "panic" \/ (r.k = "ok" /\ valid(r.v))

(* forward_unchecked / backward_unchecked are called by the driver only when the position exists: then it is that position *)
UncheckedPre(chk, r) == IF chk.k = "ok" THEN r = chk ELSE r.k = "none"
UncheckedOK(chk, r, valid(_)) == IF chk.k = "ok" THEN r = chk ELSE Unconstrained(r, valid)
IsIndex(w) == Lt(w, W(512))

Check(e) ==
    LET op == e.op IN
    CASE op = "va_new"        -> e.res = VNew(e.a)
      [] op = "va_try_new"    -> e.res = VTryNew(e.a)
      [] op = "va_trunc"      -> e.res = VTrunc(e.a) /\ Canonical(e.res.v)
      [] op = "va_from_ptr"   -> e.res = VNew(e.a)
      [] op = "pa_new"        -> e.res = PNew(e.a)
      [] op = "pa_try_new"    -> e.res = PTryNew(e.a)
      [] op = "pa_trunc"      -> e.res = PTrunc(e.a) /\ PhysValid(e.res.v)
      [] op = "va_try_new_payload" -> e.res = Ok(e.a) /\ ~Canonical(e.a)
      [] op = "pa_try_new_payload" -> e.res = Ok(e.a) /\ ~PhysValid(e.a)
      [] op = "pte_addr"      -> e.res = Ok(AndW(e.a, AddrMaskW)) /\ PhysValid(e.res.v)
      [] op = "idt_handler_addr" -> e.res = Ok(e.a) /\ Canonical(e.res.v)
      [] op \in {"va_add", "va_add_assign"} -> e.res = VAdd(e.a, e.b)
      [] op \in {"va_sub", "va_sub_assign"} -> e.res = VSub(e.a, e.b)
      [] op \in {"pa_add", "pa_add_assign"} -> e.res = PAdd(e.a, e.b)
      [] op \in {"pa_sub", "pa_sub_assign"} -> e.res = PSub(e.a, e.b)
      [] op \in {"va_diff", "pa_diff"}      -> e.res = Diff(e.a, e.b)
      [] op = "align_up"      -> e.res = AlignUp(e.a, e.b)
      [] op = "align_down"    -> e.res = AlignDown(e.a, e.b)
      \* alignments above 2^47: the value is only required to be canonical, but the call panics
      \* exactly when the rounded value overflows 2^64 (never, when rounding down)
      [] op = "va_align_up"   -> IF ~IsPow2(e.b) \/ VAlignConstrained(e.b)
                                 THEN e.res = VAlignUp(e.a, e.b)
                                 ELSE LET r == AlignUp(e.a, e.b) IN
                                      IF r.k # "ok" THEN e.res = r
                                      ELSE e.res.k = "ok" /\ Canonical(e.res.v)
      [] op = "va_align_down" -> IF ~IsPow2(e.b) \/ VAlignConstrained(e.b)
                                 THEN e.res = VAlignDown(e.a, e.b)
                                 ELSE e.res.k = "ok" /\ Canonical(e.res.v)
      [] op = "pa_align_up"   -> e.res = PAlignUp(e.a, e.b)
      [] op = "pa_align_down" -> e.res = PAlignDown(e.a, e.b)
      [] op \in {"va_is_aligned", "pa_is_aligned"} -> e.res = IsAligned(e.a, e.b)
      \* Step::forward / backward: the position when it exists; past the end the trait allows a panic or
      \* any (valid) value
      [] op = "va_step_fwd_u"  -> UncheckedOK(StepFwd(e.a, e.b), e.res, Canonical)
      [] op = "va_step_back_u" -> UncheckedOK(StepBack(e.a, e.b), e.res, Canonical)
      [] op = "pg_step_fwd_u"  -> UncheckedOK(PageStepFwd(e.a, e.b, e.s), e.res, Canonical)
      [] op = "pg_step_back_u" -> UncheckedOK(PageStepBack(e.a, e.b, e.s), e.res, Canonical)
      [] op = "va_step_fwd_uu"  -> UncheckedPre(StepFwd(e.a, e.b), e.res)
      [] op = "va_step_back_uu" -> UncheckedPre(StepBack(e.a, e.b), e.res)
      [] op = "pg_step_fwd_uu"  -> UncheckedPre(PageStepFwd(e.a, e.b, e.s), e.res)
      [] op = "pg_step_back_uu" -> UncheckedPre(PageStepBack(e.a, e.b, e.s), e.res)
      [] op = "idx_step_fwd_uu"  -> UncheckedPre(IdxStepFwd(e.a, e.b), e.res)
      [] op = "idx_step_back_uu" -> UncheckedPre(IdxStepBack(e.a, e.b), e.res)
      [] op = "idx_step_fwd_u"  -> UncheckedOK(IdxStepFwd(e.a, e.b), e.res, IsIndex)
      [] op = "idx_step_back_u" -> UncheckedOK(IdxStepBack(e.a, e.b), e.res, IsIndex)
      [] op = "va_step_fwd"   -> e.res = StepFwd(e.a, e.b)
      [] op = "va_step_back"  -> e.res = StepBack(e.a, e.b)
      [] op = "va_steps_between" -> /\ e.res = StepsBetween(e.a, e.b)
                                    /\ e.lo = e.res.v
      [] op = "pg_step_fwd"   -> e.res = PageStepFwd(e.a, e.b, e.s)
      [] op = "pg_step_back"  -> e.res = PageStepBack(e.a, e.b, e.s)
      [] op = "pg_steps_between" -> /\ e.res = PageStepsBetween(e.a, e.b, e.s)
                                    /\ e.lo = e.res.v
      [] op = "idx_step_fwd"  -> e.res = IdxStepFwd(e.a, e.b)
      [] op = "idx_step_back" -> e.res = IdxStepBack(e.a, e.b)
      [] op = "idx_steps_between" -> /\ e.res = IdxStepsBetween(e.a, e.b)
                                     /\ e.lo = e.res.v
      [] op \in {"pg_add", "pg_add_assign"} -> e.res = PageAdd(e.a, e.b, e.s)
      [] op \in {"pg_sub", "pg_sub_assign"} -> e.res = PageSub(e.a, e.b, e.s)
      [] op \in {"fr_add", "fr_add_assign"} -> e.res = FrameAdd(e.a, e.b, e.s)
      [] op \in {"fr_sub", "fr_sub_assign"} -> e.res = FrameSub(e.a, e.b, e.s)
      [] op \in {"pg_diff", "fr_diff"}      -> e.res = PageDiff(e.a, e.b, e.s)
      [] op \in {"pg_containing", "fr_containing"} -> e.res = Containing(e.a, e.s)
      [] op \in {"pg_from_start", "fr_from_start"} -> e.res = FromStart(e.a, e.s)
      [] op = "pg_size"       -> e.res = Ok(SizeW(e.s))
      [] op = "va_index"      -> e.res = Ok(W(IndexOf(e.a, e.s)))
      [] op = "va_page_offset" -> e.res = Ok(W(OffsetOf(e.a)))
      [] op = "pg_index"      -> e.res = Ok(W(IndexOf(e.a, e.l)))
      [] op = "pg_from_indices" ->
            /\ e.res = Ok(FromIndices(e.s, e.idx[1], e.idx[2], e.idx[3], e.idx[4]))
            /\ Canonical(e.res.v) /\ LowZero(e.res.v, SizeBits(e.s))
            /\ \A lv \in (e.s + 1) .. 4 : IndexOf(e.res.v, lv) = e.idx[5 - lv]
      [] op = "small_codecs"  -> SmallCodecsOK(e)
      [] op = "idx_conv"      -> \A i \in 1 .. Len(e.vals) : e.vals[i] = W(e.x)
      [] op = "lvl_next_lower"  -> e.res = NextLower(e.s)
      [] op = "lvl_next_higher" -> e.res = NextHigher(e.s)
      [] op = "lvl_table_align" -> e.res = TableAlign(e.s)
      [] op = "lvl_entry_align" -> e.res = EntryAlign(e.s)
      [] op = "lvl_value"     -> e.res = Ok(W(e.s))
      [] op = "pg_range"      -> RangeOK(e, TRUE)
      [] op = "fr_range"      -> RangeOK(e, FALSE)
      [] op = "pg_range_adapt" -> AdaptOK(e, TRUE)
      [] op = "fr_range_adapt" -> AdaptOK(e, FALSE)
      [] op = "pg_range_as4k" -> e.k = "ok" /\ e.ra = e.a /\ e.rb = e.b
      [] op = "rec_pages"     ->
            /\ e.k = "ok"
            /\ e.pages = << RecP3(e.r, e.a), RecP2(e.r, e.a), RecP1(e.r, e.a),
                            RecP3(e.r, e.a), RecP2(e.r, e.a), RecP3(e.r, e.a) >>
      [] OTHER -> FALSE

(* C03: whatever operation produced it, a returned address is valid *)
AddrOps == {"va_new", "va_try_new", "va_trunc", "va_from_ptr", "va_add", "va_add_assign", "va_sub",
            "va_sub_assign", "va_align_up", "va_align_down", "va_step_fwd", "va_step_back",
            "va_step_fwd_u", "va_step_back_u", "pg_step_fwd_u", "pg_step_back_u",
            "va_step_fwd_uu", "va_step_back_uu", "pg_step_fwd_uu", "pg_step_back_uu",
            "pg_step_fwd", "pg_step_back", "pg_add", "pg_add_assign", "pg_sub", "pg_sub_assign",
            "pg_containing", "pg_from_start", "pg_from_indices", "idt_handler_addr"}
PhysOps == {"pa_new", "pa_try_new", "pa_trunc", "pa_add", "pa_add_assign", "pa_sub", "pa_sub_assign",
            "pa_align_up", "pa_align_down", "fr_add", "fr_add_assign", "fr_sub", "fr_sub_assign",
            "fr_containing", "fr_from_start", "pte_addr"}
Valid(e) == /\ (e.op \in AddrOps /\ e.res.k = "ok") => Canonical(e.res.v)
            /\ (e.op \in PhysOps /\ e.res.k = "ok") => PhysValid(e.res.v)

Init == l = 1 /\ bad = 0
Next == /\ l <= Len(Rec)
        /\ l' = l + 1
        /\ LET e == Rec[l]
               ok == Check(e) /\ Valid(e)
           IN bad' = IF ok THEN bad
                     ELSE IF PrintT(<<"MISMATCH", l>>) THEN bad + 1 ELSE bad
Spec == Init /\ [][Next]_<<l, bad>>

(* accepted iff all lines were consumed; mismatches are listed individually *)
Consumed == TLCGet("stats").diameter = Len(Rec) + 1
Post == IF Consumed THEN PrintT(<<"CONSUMED", Len(Rec)>>)
        ELSE PrintT(<<"STUCK", TLCGet("stats").diameter>>) /\ FALSE
=============================================================================
