----------------------------- MODULE PageTables -----------------------------
(***************************************************************************)
(* The 4-level x86_64 page-table hierarchy as a state machine driven by    *)
(* the calls of the crate's Mapper / Translate / CleanUp traits, together  *)
(* with an independent hardware-style walk (what an MMU would read from    *)
(* the raw table memory).  Properties C01, C02, C09, C10, C11 (tokens).    *)
(*                                                                         *)
(* The next-state relation is written from the documentation of the        *)
(* traits and from the property statements - not from the implementation;  *)
(* where they leave freedom the specification is non-deterministic         *)
(* (parameters `extra`, `W`, the set of allowed error kinds, the set D of  *)
(* tables a clean-up frees).                                               *)
(*                                                                         *)
(* Table memory is sparse: ent[f][i] is the decoded non-zero entry i of    *)
(* the frame f; a frame / slot that is absent is all-zero.  Frames and     *)
(* addresses are 64-bit Words, so the same module serves the design check  *)
(* (MC_PT: small index universes) and trace validation (Trace_PT: all 512  *)
(* indices, real addresses).                                               *)
(***************************************************************************)
EXTENDS Addr, FiniteSets, TLC

VARIABLES root,       \* frame (Word) of the level-4 table
          rix,        \* recursive index of the level-4 table, or -1 (mapped / offset kinds)
          ent,        \* [frame -> [index -> [addr: Word, flags: SUBSET 0..63]]], non-zero slots only
          amap,       \* ghost: what the history of successful calls dictates:
                      \*        [<<size class, page start>> -> [frame, flags]]
          free,       \* frames the allocator may hand out (inputs of the environment)
          lastClean   \* <<a, b>> if the previous call was a clean-up of that range, else <<>>

vars == <<root, rix, ent, amap, free, lastClean>>

-----------------------------------------------------------------------------
(* entry flag bits (Intel SDM vol. 3 ch. 4, AMD APM vol. 2 ch. 5) *)
P == 0      RW == 1     US == 2     PWT == 3    PCD == 4    ACC == 5    DIRTY == 6
HUGE == 7   GLOBAL == 8 PATH == 12  NX == 63
FlagBits == (0 .. 11) \cup (52 .. 63)       \* bit 12 (PAT of huge leaves) lives in the address field
AddrField == MaskW(OB, PB)

ZeroE == [addr |-> ZeroW, flags |-> {}]
(* flags a leaf of size class s may carry: for huge leaves bit 12 is the PAT bit *)
LeafFlagBits(s) == FlagBits \cup (IF s > 0 THEN {12} ELSE {})
(* the entry a leaf mapping is stored as (entries keep bit 12 in the address field) *)
LeafEntry(frame, F, s) ==
    [addr |-> IF s > 0 /\ 12 \in F THEN OrW(frame, PowW(12)) ELSE frame,
     flags |-> (F \ {12}) \cup (IF s > 0 THEN {7} ELSE {})]
NoFrame == <<>>                             \* allocator answer "None"

Decode(raw) == [addr |-> AndW(raw, AddrField), flags |-> BitsOf(raw) \cap FlagBits]
Encode(e) == OrW(e.addr, FromBits(e.flags))

Lookup(m, f, i) == IF f \in DOMAIN m /\ i \in DOMAIN m[f] THEN m[f][i] ELSE ZeroE
SlotsOf(m, f) == IF f \in DOMAIN m THEN DOMAIN m[f] ELSE {}

SetSlot(m, f, i, e) ==
    IF e = ZeroE
    THEN IF f \notin DOMAIN m \/ i \notin DOMAIN m[f] THEN m
         ELSE LET g == [j \in (DOMAIN m[f]) \ {i} |-> m[f][j]]
              IN IF DOMAIN g = {} THEN [h \in (DOMAIN m) \ {f} |-> m[h]]
                                  ELSE [m EXCEPT ![f] = g]
    ELSE IF f \in DOMAIN m THEN [m EXCEPT ![f] = (i :> e) @@ m[f]]
                           ELSE (f :> (i :> e)) @@ m

DropFrames(m, D) == [h \in (DOMAIN m) \ D |-> m[h]]

Present(e) == P \in e.flags
IsHuge(e)  == Present(e) /\ HUGE \in e.flags
IsTable(e) == Present(e) /\ HUGE \notin e.flags        \* at levels 4, 3, 2

TL(s) == s + 1                         \* level of the table holding the leaf of size class s
SizeOfLevel(l) == l - 1                \* size class mapped by a leaf at level l (1, 2, 3)
HugeBit(s) == IF s > 0 THEN {HUGE} ELSE {}

-----------------------------------------------------------------------------
(* The hardware walk: 4 levels, PS honoured at levels 3 and 2, reserved at  *)
(* level 4.  Result: NotMapped or the frame, size, offset, leaf flags and   *)
(* the effective rights accumulated along the path.                         *)

NotMapped == [k |-> "notmapped", frame |-> ZeroW, size |-> 0, off |-> ZeroW, flags |-> {},
              rw |-> FALSE, us |-> FALSE, nx |-> FALSE]

RECURSIVE WalkFrom(_, _, _, _, _, _, _)
WalkFrom(m, cur, lvl, va, rw, us, nx) ==
    LET e == Lookup(m, cur, IndexOf(va, lvl))
        rw2 == rw /\ RW \in e.flags
        us2 == us /\ US \in e.flags
        nx2 == nx \/ NX \in e.flags
        leaf(s) == [k |-> "mapped",
                    frame |-> AlignDownV(e.addr, SizeBits(s)),
                    size |-> s,
                    off |-> AndW(va, LowMask(SizeBits(s))),
                    flags |-> e.flags \cup (IF s > 0 /\ Bit(e.addr, PATH) = 1 THEN {PATH} ELSE {}),
                    rw |-> rw2, us |-> us2, nx |-> nx2]
    IN IF ~Present(e) THEN NotMapped
       ELSE IF lvl = 1 THEN leaf(0)
       ELSE IF HUGE \in e.flags THEN (IF lvl = 4 THEN NotMapped ELSE leaf(SizeOfLevel(lvl)))
       ELSE WalkFrom(m, e.addr, lvl - 1, va, rw2, us2, nx2)

Walk(m, rt, va) == WalkFrom(m, rt, 4, va, TRUE, TRUE, FALSE)

(* what the history dictates for an address *)
HistLookup(am, va) ==
    LET hits == { s \in SizeClass : <<s, Containing(va, s).v>> \in DOMAIN am }
    IN IF hits = {} THEN [k |-> "notmapped", frame |-> ZeroW, size |-> 0, off |-> ZeroW, flags |-> {}]
       ELSE LET s == CHOOSE s \in hits : TRUE
                a == am[<<s, Containing(va, s).v>>]
            IN [k |-> "mapped", frame |-> a.frame, size |-> s,
                off |-> AndW(va, LowMask(SizeBits(s))), flags |-> a.flags \cup HugeBit(s)]

Proj(w) == [k |-> w.k, frame |-> w.frame, size |-> w.size, off |-> w.off, flags |-> w.flags]

(* physical address of a translation *)
PhysOf(w) == OrW(w.frame, w.off)

-----------------------------------------------------------------------------
(* walking down to the table that holds the slot of interest *)

(* result: [k |-> "at" | "missing" | "huge", tbl |-> frame, lvl |-> level reached] *)
RECURSIVE Descend(_, _, _, _, _)
Descend(m, cur, lvl, stop, va) ==
    IF lvl = stop THEN [k |-> "at", tbl |-> cur, lvl |-> lvl]
    ELSE LET e == Lookup(m, cur, IndexOf(va, lvl))
         IN IF ~Present(e) THEN [k |-> "missing", tbl |-> cur, lvl |-> lvl]
            ELSE IF HUGE \in e.flags THEN [k |-> "huge", tbl |-> cur, lvl |-> lvl]
            ELSE Descend(m, e.addr, lvl - 1, stop, va)

AnyError == {"PageNotMapped", "ParentEntryHugePage", "InvalidFrameAddress", "PageAlreadyMapped"}

Out(kinds, m, am, page, frame) ==
    [kinds |-> kinds, m |-> m, am |-> am, page |-> page, frame |-> frame]

-----------------------------------------------------------------------------
(* map_to_with_table_flags *)

(* c = [s, page, frame, F, PF, extra, W]; al = remaining allocator answers;          *)
(* result [kinds, m, used (allocator requests consumed), trav (existing parent       *)
(* slots passed), ok]                                                                 *)
RECURSIVE MapWalk(_, _, _, _, _, _, _)
MapWalk(m, cur, lvl, al, used, trav, c) ==
    LET i == IndexOf(c.page, lvl)
        e == Lookup(m, cur, i)
    IN IF lvl = TL(c.s)
       THEN IF e = ZeroE
            THEN [kinds |-> {"Ok"}, used |-> used, trav |-> trav, ok |-> TRUE,
                  m |-> SetSlot(m, cur, i, LeafEntry(c.frame, c.F, c.s))]
            ELSE [kinds |-> {"PageAlreadyMapped"}, used |-> used, trav |-> trav, ok |-> FALSE, m |-> m]
       ELSE IF e = ZeroE
            THEN IF al = <<>> THEN [kinds |-> {}, used |-> used, trav |-> trav, ok |-> FALSE, m |-> m]
                 ELSE IF Head(al) = NoFrame
                 THEN [kinds |-> {"FrameAllocationFailed"}, used |-> used + 1, trav |-> trav,
                       ok |-> FALSE, m |-> m]
                 ELSE MapWalk(SetSlot(m, cur, i, [addr |-> Head(al), flags |-> c.PF \cup c.extra]),
                              Head(al), lvl - 1, Tail(al), used + 1, trav, c)
            ELSE IF HUGE \in e.flags
            THEN [kinds |-> {"ParentEntryHugePage"}, used |-> used, trav |-> trav, ok |-> FALSE, m |-> m]
            ELSE MapWalk(IF <<cur, i>> \in c.W
                         THEN SetSlot(m, cur, i, [e EXCEPT !.flags = @ \cup c.PF]) ELSE m,
                         e.addr, lvl - 1, al, used, trav \cup {<<cur, i>>}, c)

MapSem(m, am, c, allocs) ==
    LET r == MapWalk(m, root, 4, allocs, 0, {}, c)
    IN [kinds |-> IF r.used # Len(allocs) THEN {}           \* every logged request must be explained
                  ELSE IF r.ok /\ c.W # r.trav THEN {}      \* success: all existing parents are widened
                  ELSE IF ~(c.W \subseteq r.trav) THEN {}
                  ELSE r.kinds,
        m |-> r.m,
        am |-> IF r.ok THEN (<<c.s, c.page>> :> [frame |-> c.frame, flags |-> c.F]) @@ am ELSE am,
        page |-> IF r.ok THEN c.page ELSE ZeroW,
        frame |-> ZeroW, trav |-> r.trav, used |-> r.used]

(* user obligations of a map call (the quantifier of C01/C02) *)
MapPre(c, allocs) ==
    /\ c.s \in SizeClass
    /\ Canonical(c.page) /\ LowZero(c.page, SizeBits(c.s))
    /\ PhysValid(c.frame) /\ LowZero(c.frame, SizeBits(c.s))
    /\ P \in c.F /\ c.F \subseteq LeafFlagBits(c.s) /\ (c.s > 0 => HUGE \notin c.F)
    /\ P \in c.PF /\ HUGE \notin c.PF /\ c.PF \subseteq FlagBits
    /\ c.extra \subseteq {P, RW}
    /\ IndexOf(c.page, 4) # rix
    /\ \A j \in 1 .. Len(allocs) :
          allocs[j] # NoFrame => /\ allocs[j] \in free /\ allocs[j] \notin DOMAIN ent
                                 /\ \A k \in 1 .. Len(allocs) : k # j => allocs[k] # allocs[j]

-----------------------------------------------------------------------------
(* unmap / update_flags / translate_page *)

UnmapSem(m, am, s, page) ==
    LET d == Descend(m, root, 4, TL(s), page)
        i == IndexOf(page, TL(s))
        e == Lookup(m, d.tbl, i)
    IN IF d.k = "missing" THEN Out({"PageNotMapped"}, m, am, ZeroW, ZeroW)
       ELSE IF d.k = "huge" THEN Out({"ParentEntryHugePage"}, m, am, ZeroW, ZeroW)
       ELSE IF ~Present(e) THEN Out({"PageNotMapped"}, m, am, ZeroW, ZeroW)
       ELSE IF s = 0 \/ HUGE \in e.flags
       THEN Out({"Ok"}, SetSlot(m, d.tbl, i, ZeroE),
                [k \in (DOMAIN am) \ {<<s, page>>} |-> am[k]], page, AlignDownV(e.addr, SizeBits(s)))
       ELSE Out(AnyError, m, am, ZeroW, ZeroW)          \* slot holds a table of smaller pages

UpdateSem(m, am, s, page, F) ==
    LET d == Descend(m, root, 4, TL(s), page)
        i == IndexOf(page, TL(s))
        e == Lookup(m, d.tbl, i)
    IN IF d.k = "missing" THEN Out({"PageNotMapped"}, m, am, ZeroW, ZeroW)
       ELSE IF d.k = "huge" THEN Out({"ParentEntryHugePage"}, m, am, ZeroW, ZeroW)
       ELSE IF ~Present(e) THEN Out({"PageNotMapped"}, m, am, ZeroW, ZeroW)
       ELSE IF s = 0 \/ HUGE \in e.flags
       THEN Out({"Ok"}, SetSlot(m, d.tbl, i, LeafEntry(AlignDownV(e.addr, SizeBits(s)), F, s)),
                [am EXCEPT ![<<s, page>>].flags = F], page, ZeroW)
       ELSE Out(AnyError, m, am, ZeroW, ZeroW)

TranslatePageSem(m, am, s, page) ==
    LET d == Descend(m, root, 4, TL(s), page)
        e == Lookup(m, d.tbl, IndexOf(page, TL(s)))
    IN IF d.k = "missing" THEN Out({"PageNotMapped"}, m, am, ZeroW, ZeroW)
       ELSE IF d.k = "huge" THEN Out({"ParentEntryHugePage"}, m, am, ZeroW, ZeroW)
       ELSE IF ~Present(e) THEN Out({"PageNotMapped"}, m, am, ZeroW, ZeroW)
       ELSE IF s = 0 \/ HUGE \in e.flags
       THEN Out({"Ok"}, m, am, ZeroW, AlignDownV(e.addr, SizeBits(s)))
       ELSE Out(AnyError, m, am, ZeroW, ZeroW)

(* set_flags_p4/p3/p2_entry: K = level of the entry, s = size class of the page argument *)
SetFlagsSem(m, am, s, page, K, F) ==
    LET d == Descend(m, root, 4, K, page)
        i == IndexOf(page, K)
        e == Lookup(m, d.tbl, i)
    IN IF K <= TL(s) THEN Out(AnyError, m, am, ZeroW, ZeroW)      \* not a parent of this page size
       ELSE IF d.k = "missing" THEN Out({"PageNotMapped"}, m, am, ZeroW, ZeroW)
       ELSE IF d.k = "huge" THEN Out({"ParentEntryHugePage"}, m, am, ZeroW, ZeroW)
       ELSE IF ~Present(e) THEN Out({"PageNotMapped"}, m, am, ZeroW, ZeroW)
       ELSE IF HUGE \in e.flags THEN Out({"ParentEntryHugePage"}, m, am, ZeroW, ZeroW)
       ELSE Out({"Ok"}, SetSlot(m, d.tbl, i, [e EXCEPT !.flags = F]), am, ZeroW, ZeroW)

FlagsPre(s, page, F) ==
    /\ s \in SizeClass /\ Canonical(page) /\ LowZero(page, SizeBits(s))
    /\ P \in F /\ F \subseteq LeafFlagBits(s) /\ IndexOf(page, 4) # rix
ParentFlagsPre(F) == HUGE \notin F /\ F \subseteq FlagBits

-----------------------------------------------------------------------------
(* the tables of the hierarchy and clean-up (C10) *)

L4SlotsR(m, rt, rx) == { i \in SlotsOf(m, rt) : i # rx /\ IsTable(Lookup(m, rt, i)) }
L4Slots(m) == L4SlotsR(m, root, rix)

(* [f: frame, lvl, base: first virtual address covered, pf/pi: the slot that links it] *)
Tables3R(m, rt, rx) == { [f |-> Lookup(m, rt, i).addr, lvl |-> 3, pf |-> rt, pi |-> i,
                          base |-> FromIndices(2, i, 0, 0, 0)] : i \in L4SlotsR(m, rt, rx) }
Tables3(m) == Tables3R(m, root, rix)
SubTables(m, T, l) ==
    UNION { { [f |-> Lookup(m, t.f, j).addr, lvl |-> l, pf |-> t.f, pi |-> j,
               base |-> OrW(t.base, Shl(W(j), OB + l * IB))] :
              j \in { j \in SlotsOf(m, t.f) : IsTable(Lookup(m, t.f, j)) } } : t \in T }
Tables2(m) == SubTables(m, Tables3(m), 2)
Tables1(m) == SubTables(m, Tables2(m), 1)
Tables(m) == Tables3(m) \cup Tables2(m) \cup Tables1(m)
TableFramesOf(m) == { t.f : t \in Tables(m) } \cup {root}

LastByte(t) == OrW(t.base, LowMask(OB + t.lvl * IB))
(* inclusive 4 KiB page range a..b (page start addresses) *)
RangeLastByte(b) == OrW(b, LowMask(OB))
Overlaps(t, a, b) == Le(a, b) /\ Le(t.base, RangeLastByte(b)) /\ Le(a, LastByte(t))
Inside(t, a, b) == Le(a, t.base) /\ Le(LastByte(t), RangeLastByte(b))

UnlinkT(m, T, D) ==    \* remove the frames of D and every slot that points to one of them
    LET TD == { t \in T : t.f \in D }
        RECURSIVE rm(_, _)
        rm(mm, S) == IF S = {} THEN mm
                     ELSE LET t == CHOOSE t \in S : TRUE
                          IN rm(SetSlot(mm, t.pf, t.pi, ZeroE), S \ {t})
    IN DropFrames(rm(m, TD), D)
Unlink(m, D) == UnlinkT(m, Tables(m), D)

(* T = Tables(m), passed in so that it is computed once *)
CleanOKT(m, T, D, a, b) ==
    LET m2 == UnlinkT(m, T, D)
    IN /\ D \subseteq { t.f : t \in T }
       /\ \A t \in T : t.f \in D =>
             /\ Overlaps(t, a, b)
             /\ \A j \in SlotsOf(m, t.f) :            \* entirely empty once its freed children are gone
                   /\ t.lvl > 1
                   /\ IsTable(Lookup(m, t.f, j))
                   /\ Lookup(m, t.f, j).addr \in D
       /\ \A t \in Tables(m2) : Inside(t, a, b) => SlotsOf(m2, t.f) # {}   \* none left behind
       /\ (lastClean = <<a, b>> => D = {})                               \* repeating frees nothing
CleanOK(m, D, a, b) == CleanOKT(m, Tables(m), D, a, b)

(* the mappings a hierarchy rooted at rt contains (used to adopt an injected state) *)
LeafAt(e, l) == Present(e) /\ (l = 1 \/ HUGE \in e.flags)
LeavesR(m, rt, rx) ==
    LET T3 == Tables3R(m, rt, rx)
        T2 == SubTables(m, T3, 2)
        T1 == SubTables(m, T2, 1)
        lv(T, l) == UNION { { [s |-> l - 1, page |-> OrW(t.base, Shl(W(j), OB + (l - 1) * IB)),
                               e |-> Lookup(m, t.f, j)] :
                              j \in { j \in SlotsOf(m, t.f) : LeafAt(Lookup(m, t.f, j), l) } } : t \in T }
    IN lv(T3, 3) \cup lv(T2, 2) \cup lv(T1, 1)
DeriveAmapR(m, rt, rx) ==
    LET L == LeavesR(m, rt, rx)
        K == { << x.s, x.page >> : x \in L }
    IN [ k \in K |-> LET x == CHOOSE x \in L : << x.s, x.page >> = k
                     IN [frame |-> AlignDownV(x.e.addr, SizeBits(x.s)),
                         flags |-> (x.e.flags \ HugeBit(x.s)) \cup
                                   (IF x.s > 0 /\ Bit(x.e.addr, PATH) = 1 THEN {PATH} ELSE {})] ]
TableFramesOfR(m, rt, rx) ==
    LET T3 == Tables3R(m, rt, rx)
        T2 == SubTables(m, T3, 2)
        T1 == SubTables(m, T2, 1)
    IN { t.f : t \in T3 \cup T2 \cup T1 } \cup {rt}

FullRangeA == ZeroW
FullRangeB == MaskW(OB, WB)

-----------------------------------------------------------------------------
(* invariants *)

TypeOK == /\ \A f \in DOMAIN ent : DOMAIN ent[f] # {} /\ \A i \in DOMAIN ent[f] : ent[f][i] # ZeroE
          /\ root \notin free

(* every table frame is linked exactly once; no free frame is part of the hierarchy *)
TreeShape ==
    /\ \A t1, t2 \in Tables(ent) : t1.f = t2.f => t1 = t2
    /\ root \notin { t.f : t \in Tables(ent) }
    /\ DOMAIN ent \subseteq TableFramesOf(ent)
    /\ free \cap TableFramesOf(ent) = {}

(* no two recorded mappings overlap *)
NoOverlap ==
    \A k1, k2 \in DOMAIN amap :
        k1 # k2 => LET big == IF k1[1] >= k2[1] THEN k1 ELSE k2
                       small == IF k1[1] >= k2[1] THEN k2 ELSE k1
                   IN Containing(small[2], big[1]).v # big[2]

(* C01: the hardware walk of the raw tables equals what the history dictates (on a probe set) *)
WalkIsHistoryAt(va) == Proj(Walk(ent, root, va)) = HistLookup(amap, va)
=============================================================================
