------------------------------- MODULE MC_Gdt -------------------------------
(***************************************************************************)
(* Design check for C14: every sequence of appends of user / system        *)
(* descriptors of every privilege level into tables of capacity 1..MaxCap: *)
(* null descriptor first, order kept, capacity never exceeded, a refused   *)
(* append changes nothing, selector = (first slot, GDT, DPL), limit.       *)
(* Also C15 round trip: the TSS descriptor built from the architectural    *)
(* layout decodes to the address it was built from.                        *)
(***************************************************************************)
EXTENDS Gdt

CONSTANT MaxCap
VARIABLES last, sels      \* last result; selectors handed out so far: <<sel, first slot, slots, dpl>>

DescAlphabet == { [sys |-> sy, lo |-> Shl(W(d), 45), hi |-> W(7)] : sy \in BOOLEAN, d \in 0 .. 3 }

Init == max \in 1 .. MaxCap /\ tab = << ZeroW >> /\ last = "init" /\ sels = {}
Next == \E d \in DescAlphabet :
          LET r == AppendSem(tab, max, d) IN
          /\ tab' = r.tab /\ last' = r.k /\ UNCHANGED max
          /\ sels' = IF r.k = "ok" THEN sels \cup { << r.sel, Len(tab), Slots(d), Dpl(d.lo) >> } ELSE sels
Spec == Init /\ [][Next]_<<tab, max, last, sels>>

Inv == /\ TableInv
       /\ Limit(tab) = 8 * Len(tab) - 1
       /\ \A s \in sels :
             /\ s[1] \div 8 = s[2]                 \* index = first slot
             /\ (s[1] \div 4) % 2 = 0              \* table indicator: GDT
             /\ s[1] % 4 = s[4]                    \* RPL = DPL
             /\ s[2] >= 1 /\ s[2] + s[3] <= Len(tab)
       /\ \A s1, s2 \in sels : s1 # s2 =>          \* descriptors do not overlap
             (s1[2] + s1[3] <= s2[2] \/ s2[2] + s2[3] <= s1[2])
RefusedIsNoOp == [][last' = "panic" => tab' = tab]_<<tab, max, last, sels>>

(* C15: encode per the architectural layout, decode with DecodeSys *)
EncodeTss(ptr) ==
    [ lo |-> OrW(OrW(W(103), Shl(AndW(ptr, LowMask(24)), 16)),
                 OrW(Shl(W(9), 40), OrW(PowW(47), Shl(AndW(Shr(ptr, 24), LowMask(8)), 56)))),
      hi |-> Shr(ptr, 32) ]
Ptrs == { ZeroW, OnesW, W(4096), << 0, 0, 32768, 65535 >>, << 1, 2, 3, 4 >>, << 65535, 255, 0, 0 >>,
          << 0, 256, 0, 0 >>, << 0, 0, 1, 0 >>, << 0, 0, 0, 32768 >> }
ASSUME \A q \in Ptrs : TssDescriptorOK(q, EncodeTss(q).lo, EncodeTss(q).hi)
=============================================================================
