---------------------------- MODULE Trace_Consts ----------------------------
(***************************************************************************)
(* Trace validation for named constants and small codecs (C19).            *)
(* `const` events carry (group, name, value) enumerated at run time from   *)
(* the crate (bitflags name tables, associated constants, enum             *)
(* discriminants, MSR numbers observed in ECX); each is compared with the  *)
(* independently written table ArchConsts.  A name the table does not know *)
(* is reported as UNCHECKED (a new constant is not a defect); a name the   *)
(* table knows but the crate no longer yields is reported as ABSENT.       *)
(* Codec events enumerate the small value types over their full domains.   *)
(***************************************************************************)
EXTENDS Addr, ArchConsts, Integers, FiniteSets, Json, IOUtils

Rec == ndJsonDeserialize(IOEnv.TRACE)
VARIABLES l, bad, seen

Key(e) == e.g \o "::" \o e.n
Known == DOMAIN ConstTable
Small(w) == w[1] + LM * w[2]

ConstOK(e) ==
    LET k == Key(e) IN
    IF e.n = "@all" THEN TRUE          \* union of the named flags: checked through the individual names
    ELSE IF k \in Known THEN e.v = ConstTable[k]
    ELSE PrintT(<<"UNCHECKED", k>>)

(* codecs *)
SelBlockOK(e) ==
    \A d \in 1 .. 256 :
       LET x == e.base + d - 1
           r == (x \div 7) % 4
       IN /\ e.index[d] = x \div 8                   \* bits 3..15
          /\ e.rpl[d] = x % 4                        \* bits 0..1
          /\ e.set[d] = (x - (x % 4)) + r              \* set_rpl replaces only bits 0..1
SelNewBlockOK(e) == \A d \in 1 .. 256 : e.vals[d] = (e.base + d - 1) * 8 + e.rpl
PlBlockOK(e) == \A d \in 1 .. 256 : e.vals[d] = (IF e.base + d - 1 <= 3 THEN e.base + d - 1 ELSE -1)

ExcVectors == ExceptionVectorNumbers
PatTypes == {0, 1, 4, 5, 6, 7}
U8OK(e) ==
    \A x \in 0 .. 255 :
       /\ e.excvec[x + 1] = (IF x \in ExcVectors THEN x ELSE -1)
       /\ e.pat[x + 1] = (IF x \in PatTypes THEN x ELSE -1)
       /\ e.drn[x + 1] = (IF x <= 3 THEN x ELSE -1)
       /\ e.bpsize_new[x + 1] = (CASE x = 1 -> 0 [] x = 2 -> 1 [] x = 8 -> 2 [] x = 4 -> 3 [] OTHER -> -1)
       /\ e.bpsize_bits[x + 1] = (IF x <= 3 THEN x ELSE -1)
       /\ e.bpcond_bits[x + 1] = (IF x <= 3 THEN x ELSE -1)

(* DR7: R/Wn at bits 16+4n..17+4n, LENn at 18+4n..19+4n, independent of each other and of the flags *)
Dr7FlagMask == <<11263, 0, 0, 0>>          \* 0x2bff: bits 0-9, 11, 13
Dr7OK(e) ==
    LET n == e.n
        rw == MaskW(16 + 4 * n, 18 + 4 * n)
        ln == MaskW(18 + 4 * n, 20 + 4 * n)
        own == OrW(rw, ln)
        want_mid == OrW(AndW(e.before, NotW(own)),
                        OrW(Shl(W(e.cond), 16 + 4 * n), Shl(W(e.size), 18 + 4 * n)))
        want == OrW(AndW(want_mid, NotW(Dr7FlagMask)), e.flags)
    IN /\ e.mid = want_mid                      \* only this register's two fields changed
       /\ e.bits = want                         \* flags replaced, fields untouched
       /\ e.got_cond = e.cond /\ e.got_size = e.size /\ e.got_flags = e.flags
       /\ e.from_flags = e.flags
Dr7FromBitsOK(e) ==
    /\ e.mask = OrW(Dr7FlagMask, MaskW(16, 32))
    /\ e.trunc = AndW(e.x, e.mask)
    /\ e.some = (IF AndW(e.x, NotW(e.mask)) = ZeroW THEN 1 ELSE 0)

(* selector error code (SDM vol. 3 fig. 6-7): bit 0 EXT, bit 1 IDT, bit 2 TI, bits 3..15 index *)
SelErrBlockOK(e) ==
    \A d \in 1 .. 256 :
       LET x == e.base + d - 1
           t == (x \div 2) % 4
       IN /\ e.ext[d] = x % 2
          /\ e.tab[d] = (CASE t = 0 -> 0 [] t = 2 -> 2 [] OTHER -> 1)      \* IDT bit set -> IDT
          /\ e.idx[d] = x \div 8
          /\ e.nul[d] = (IF x = 0 THEN 1 ELSE 0)
          /\ e.some[d] = 1
SelErrWideOK(e) ==
    /\ e.some = (IF Shr(e.x, 16) = ZeroW THEN 1 ELSE 0)
    /\ e.idx = Field(e.x, 3, 16) /\ e.ext = Bit(e.x, 0)

Check(e) ==
    CASE e.op = "const" -> ConstOK(e)
      [] e.op = "sel_block" -> SelBlockOK(e)
      [] e.op = "sel_new_block" -> SelNewBlockOK(e)
      [] e.op = "pl_block" -> PlBlockOK(e)
      [] e.op = "u8_codecs" -> U8OK(e)
      [] e.op = "dr7_codec" -> Dr7OK(e)
      [] e.op = "dr7_from_bits" -> Dr7FromBitsOK(e)
      [] e.op = "dr7_flagops" ->
            /\ e.got = << XorW(e.v, e.f), OrW(e.v, e.f), AndW(e.v, NotW(e.f)), OrW(e.v, e.f), AndW(e.v, NotW(e.f)) >>
            /\ e.unchecked = e.x
      [] e.op = "selerr_block" -> SelErrBlockOK(e)
      [] e.op = "selerr_wide" -> SelErrWideOK(e)
      [] e.op = "const_end" ->
            \A k \in Known \ seen : PrintT(<<"ABSENT", k>>)      \* reported, not a violation
      [] OTHER -> FALSE

Init == l = 1 /\ bad = 0 /\ seen = {}
Next == /\ l <= Len(Rec) /\ l' = l + 1
        /\ seen' = IF Rec[l].op = "const" THEN seen \cup {Key(Rec[l])} ELSE seen
        /\ bad' = IF Check(Rec[l]) THEN bad ELSE IF PrintT(<<"MISMATCH", l>>) THEN bad + 1 ELSE bad
Spec == Init /\ [][Next]_<<l, bad, seen>>
Consumed == TLCGet("stats").diameter = Len(Rec) + 1
Post == IF Consumed THEN PrintT(<<"CONSUMED", Len(Rec)>>)
        ELSE PrintT(<<"STUCK", TLCGet("stats").diameter>>) /\ FALSE
=============================================================================
