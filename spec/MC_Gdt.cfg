CONSTANTS
  LB = 16
  VB = 48
  PB = 52
  OB = 12
  IB = 9
  MaxCap = 6
SPECIFICATION Spec
INVARIANT Inv
PROPERTY RefusedIsNoOp
CHECK_DEADLOCK FALSE
