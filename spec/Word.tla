-------------------------------- MODULE Word --------------------------------
(***************************************************************************)
(* Machine words TLC can compute with.                                     *)
(*                                                                         *)
(* TLC integers are 32-bit; the crate computes on 64-bit values.  A word   *)
(* is a tuple of NL = 4 limbs of LB bits, little-endian <<l0,l1,l2,l3>>.   *)
(* LB = 16 is the real machine (64-bit words, the width used in trace      *)
(* validation); LB = 2 or 3 gives 8/12-bit words on which TLC can          *)
(* enumerate all inputs (module MC_Addr).  The operator text is the same.      *)
(***************************************************************************)
EXTENDS Naturals, Sequences, Bitwise

CONSTANT LB                       \* bits per limb

NL == 4
WB == NL * LB                     \* word width in bits
LM == 2^LB                        \* limb modulus

Limb == 0 .. LM - 1
WordSet == [1..NL -> Limb]        \* only enumerable at scaled widths

ZeroW == <<0, 0, 0, 0>>
OnesW == <<LM - 1, LM - 1, LM - 1, LM - 1>>

IsWord(w) == /\ w \in Seq(Nat) /\ Len(w) = NL /\ \A i \in 1..NL : w[i] < LM

(* small natural -> word; n may be any TLC-representable natural *)
W(n) == LET q1 == n \div LM
            q2 == q1 \div LM
            q3 == q2 \div LM
        IN << n % LM, q1 % LM, q2 % LM, q3 % LM >>

(* word -> natural; only meaningful when WB <= 30 (scaled configurations) *)
ToNat(w) == w[1] + LM * (w[2] + LM * (w[3] + LM * w[4]))

-----------------------------------------------------------------------------
(* addition / subtraction with carry / borrow: result [v |-> word, c |-> 0/1] *)

AddC(a, b, cin) ==
    LET s1 == a[1] + b[1] + cin
        s2 == a[2] + b[2] + (s1 \div LM)
        s3 == a[3] + b[3] + (s2 \div LM)
        s4 == a[4] + b[4] + (s3 \div LM)
    IN [v |-> << s1 % LM, s2 % LM, s3 % LM, s4 % LM >>, c |-> s4 \div LM]

Add(a, b) == AddC(a, b, 0)

NotW(a) == << LM - 1 - a[1], LM - 1 - a[2], LM - 1 - a[3], LM - 1 - a[4] >>

(* a - b = a + ~b + 1; borrow = 1 - carry *)
Sub(a, b) == LET r == AddC(a, NotW(b), 1) IN [v |-> r.v, c |-> 1 - r.c]

Lt(a, b) == Sub(a, b).c = 1          \* a < b
Le(a, b) == ~Lt(b, a)

Max(a, b) == IF Lt(a, b) THEN b ELSE a
Min(a, b) == IF Lt(a, b) THEN a ELSE b

-----------------------------------------------------------------------------
(* bit access *)

Pow2T == [ k \in 0 .. LB |-> 2^k ]                 \* constant table (evaluated once)
Bit(w, i) == (w[(i \div LB) + 1] \div Pow2T[i % LB]) % 2

LimbBits(x, j) == IF x = 0 THEN {} ELSE { j * LB + k : k \in { k \in 0 .. LB - 1 : (x \div Pow2T[k]) % 2 = 1 } }
BitsOf(w) == LimbBits(w[1], 0) \cup LimbBits(w[2], 1) \cup LimbBits(w[3], 2) \cup LimbBits(w[4], 3)

(* word with exactly the bits of the set S (S \subseteq 0..WB-1) *)
LimbOf(S, j) ==           \* limb j (0-based) of the word whose set bits are S
    LET RECURSIVE acc(_)
        acc(k) == IF k = LB THEN 0
                  ELSE (IF (j * LB + k) \in S THEN 2^k ELSE 0) + acc(k + 1)
    IN acc(0)
FromBits(S) == << LimbOf(S, 0), LimbOf(S, 1), LimbOf(S, 2), LimbOf(S, 3) >>

AndW(a, b) == << a[1] & b[1], a[2] & b[2], a[3] & b[3], a[4] & b[4] >>
OrW(a, b)  == << a[1] | b[1], a[2] | b[2], a[3] | b[3], a[4] | b[4] >>
XorW(a, b) == << a[1] ^^ b[1], a[2] ^^ b[2], a[3] ^^ b[3], a[4] ^^ b[4] >>

(* mask with bits lo..hi-1 set (0 <= lo <= hi <= WB) *)
LimbMask(j, lo, hi) ==    \* the part of bits lo..hi-1 that falls into limb j
    LET l == IF lo > j * LB THEN lo - j * LB ELSE 0
        h == IF hi < (j + 1) * LB THEN (IF hi > j * LB THEN hi - j * LB ELSE 0) ELSE LB
    IN IF h > l THEN 2^h - 2^l ELSE 0
MaskW(lo, hi) == << LimbMask(0, lo, hi), LimbMask(1, lo, hi),
                    LimbMask(2, lo, hi), LimbMask(3, lo, hi) >>
LowMask(k) == MaskW(0, k)

(* shifts by any amount 0..WB *)
LimbAt(w, j) == IF j >= 0 /\ j < NL THEN w[j + 1] ELSE 0
Shl(w, k) ==
    LET q == k \div LB
        r == k % LB
        limb(j) == ((LimbAt(w, j - q) % 2^(LB - r)) * 2^r)
                   + (LimbAt(w, j - q - 1) \div 2^(LB - r))
    IN IF k >= WB THEN ZeroW
       ELSE IF r = 0 THEN << LimbAt(w, 0 - q), LimbAt(w, 1 - q), LimbAt(w, 2 - q), LimbAt(w, 3 - q) >>
       ELSE << limb(0), limb(1), limb(2), limb(3) >>
Shr(w, k) ==
    LET q == k \div LB
        r == k % LB
        limb(j) == (LimbAt(w, j + q) \div 2^r)
                   + ((LimbAt(w, j + q + 1) % 2^r) * 2^(LB - r))
    IN IF k >= WB THEN ZeroW
       ELSE IF r = 0 THEN << LimbAt(w, q), LimbAt(w, 1 + q), LimbAt(w, 2 + q), LimbAt(w, 3 + q) >>
       ELSE << limb(0), limb(1), limb(2), limb(3) >>

(* field bits lo..hi-1 as a small natural (hi - lo <= 30) *)
Field(w, lo, hi) ==
    IF hi - lo <= LB
    THEN LET q == lo \div LB                       \* fast path: at most two adjacent limbs
             r == lo % LB
         IN ((LimbAt(w, q) \div 2^r) + ((LimbAt(w, q + 1) % 2^r) * 2^(LB - r))) % 2^(hi - lo)
    ELSE LET s == Shr(AndW(w, MaskW(lo, hi)), lo) IN ToNat(s)

PowW(k) == IF k >= WB THEN ZeroW ELSE Shl(W(1), k)       \* 2^k as a word (k < WB)

IsZero(w) == w = ZeroW
(* exactly one limb is non-zero and it is a power of two *)
LimbPow2(x) == x > 0 /\ (x & (x - 1)) = 0
IsPow2(w) == \E i \in 1 .. NL : /\ LimbPow2(w[i])
                                 /\ \A j \in 1 .. NL : j # i => w[j] = 0
Log2(w) == LET i == CHOOSE i \in 1 .. NL : w[i] # 0
           IN (i - 1) * LB + (CHOOSE k \in 0 .. LB - 1 : 2^k = w[i])

(* low k bits of w are zero *)
LowZero(w, k) == AndW(w, LowMask(k)) = ZeroW
=============================================================================
