------------------------------ MODULE Trace_Cpu ------------------------------
(***************************************************************************)
(* Trace validation for the instruction wrappers that run on the ring-3    *)
(* trap-and-emulate CPU: I/O ports (C18), interrupt flag (C17), TLB flush  *)
(* operations (C11) and system registers (C16).                            *)
(*                                                                         *)
(* Each event is one call of a real wrapper together with the privileged   *)
(* instructions that trapped while it ran (mnemonic + operand registers /  *)
(* memory operand as the CPU would have seen them).  The wrapper contract  *)
(* is stated on what the hardware would observe, not on how the wrapper    *)
(* computes it.                                                            *)
(***************************************************************************)
EXTENDS Cpu, Integers, Json, IOUtils

Rec == ndJsonDeserialize(IOEnv.TRACE)

VARIABLES l, bad,
          ifl,      \* specification's interrupt flag
          stack,    \* active without_interrupts calls: [saved, ran]
          reg       \* emulated register file as the specification sees it (C16), name -> Word

vars == <<l, bad, ifl, stack, reg>>

Small(w) == w[1] + LM * w[2]

-----------------------------------------------------------------------------
(* C18 *)
PortBlockOK(e) ==
    \A d \in 1 .. 256 :
       /\ e.counts[d] = 1                                   \* exactly one port instruction
       /\ e.ports[d] = e.base + d - 1                        \* on exactly this port (DX)
       /\ e.widths[d] = e.w                                  \* of exactly this width
       /\ e.mn[d] = (IF e.write = 1 THEN 5 ELSE 4)           \* out / in
       /\ (e.write = 1 => e.vals[d] = e.given[d])            \* the value written is the value given
       /\ (e.write = 0 => e.rets[d] = e.vals[d])             \* the value returned is the device's
PortEqOK(e) ==
    LET same == IF e.p = e.q THEN 1 ELSE 0
    IN e.eq = << same, same, same, 1 >> /\ e.clone_port = e.p /\ e.clone_ok = 1

PortMultiOK(e) ==
    /\ e.cf_eq = 1 /\ e.cf_port = e.q                         \* clone_from refers to the source's port
    /\ e.n2 = 2 /\ e.ports2 = << e.p, e.p >>                   \* two reads = two accesses
    /\ e.rets2 = e.vals2                                      \* each returns what the device supplied
    /\ e.n1 = 1 /\ e.port1 = e.q                              \* a discarded read still happens

-----------------------------------------------------------------------------
(* C11: standalone flushes *)
OneInvlpg(ins, addr) == Len(ins) = 1 /\ ins[1].m = "invlpg" /\ ins[1].a = addr
FlushAllOK(e) ==     \* reload CR3 with its current value; nothing else is written
    LET ws == { k \in 1 .. Len(e.instrs) : e.instrs[k].m # "mov_from_cr" }
    IN /\ Cardinality(ws) = 1
       /\ \A k \in 1 .. Len(e.instrs) :
             /\ e.instrs[k].m \in {"mov_from_cr", "mov_to_cr"}
             /\ e.instrs[k].a = W(3)
             /\ (e.instrs[k].m = "mov_to_cr" => e.instrs[k].c = e.cr3)
       /\ e.after = e.cr3
PcidBlockOK(e) == \A d \in 1 .. 256 : e.vals[d] = (IF e.base + d - 1 < 4096 THEN e.base + d - 1 ELSE -1)

-----------------------------------------------------------------------------
(* C17 *)
IfStep(e) ==   \* -> [ok, ifl, stack]
    LET ins == e.instrs
        after == IfAfter(ifl, ins, 1)
        only(S) == OnlyMnemonics(ins, S)
        st(ok, s) == [ok |-> ok /\ e.if = after, ifl |-> after, stack |-> s]
        top == stack[Len(stack)]
    IN CASE e.op = "enable" -> st(only({"sti"}) /\ after = 1, stack)
         [] e.op = "disable" -> st(only({"cli"}) /\ after = 0, stack)
         [] e.op = "are_enabled" -> st(ins = << >> /\ e.ret = ifl, stack)
         [] e.op = "enable_and_hlt" ->
               st(/\ Len(ins) = 2 /\ ins[1].m = "sti" /\ ins[2].m = "hlt"
                  /\ ins[2].rip = Add(ins[1].rip, W(1)).v          \* back to back: nothing in between
                  /\ after = 1, stack)
         [] e.op = "wi_enter" -> st(ins = << >>, Append(stack, [saved |-> ifl, ran |-> 0]))
         [] e.op = "body" ->
               st(/\ stack # << >> /\ only({"cli", "sti"})
                  /\ after = 0                                     \* the closure runs with IF clear
                  /\ top.ran = 0,
                  IF stack = << >> THEN stack ELSE [stack EXCEPT ![Len(stack)].ran = 1])
         [] e.op = "body_end" -> st(ins = << >> /\ after = 0, stack)   \* driver obligation
         [] e.op = "wi_exit" ->
               st(/\ stack # << >> /\ only({"cli", "sti"})
                  /\ after = top.saved                             \* flag exactly as before the call
                  /\ top.ran = 1 /\ e.calls = 1                    \* closure ran exactly once
                  /\ e.ret = e.expect,                             \* and its result is returned
                  IF stack = << >> THEN stack ELSE SubSeq(stack, 1, Len(stack) - 1))
         [] OTHER -> [ok |-> FALSE, ifl |-> ifl, stack |-> stack]

IntrOps == {"enable", "disable", "are_enabled", "enable_and_hlt", "wi_enter", "body", "body_end", "wi_exit"}

-----------------------------------------------------------------------------
Check(e) ==
    CASE e.op = "port_block" -> PortBlockOK(e)
      [] e.op = "port_eq" -> PortEqOK(e)
      [] e.op = "port_multi" -> PortMultiOK(e)
      [] e.op = "flush" -> OneInvlpg(e.instrs, e.addr)
      [] e.op = "token_flush" -> OneInvlpg(e.instrs, e.page)
      [] e.op = "flush_all" -> FlushAllOK(e)
      [] e.op = "pcid_block" -> PcidBlockOK(e)
      [] e.op = "flush_pcid" -> InvpcidOK(e.kind, e.pcid, e.addr, e.instrs)
      [] e.op = "tlbsync" -> Len(e.instrs) = 1 /\ e.instrs[1].m = "tlbsync"
      [] e.op = "invlpgb_flush" -> BroadcastOK(e, e.instrs)
      [] OTHER -> FALSE

Init == l = 1 /\ bad = 0 /\ ifl = 1 /\ stack = << >> /\ reg = << >>

Mismatch == PrintT(<<"MISMATCH", l>>)

Next ==
    /\ l <= Len(Rec)
    /\ l' = l + 1
    /\ LET e == Rec[l] IN
       IF e.op = "reset"
       THEN ifl' = e.if /\ stack' = << >> /\ UNCHANGED <<bad, reg>>
       ELSE IF e.op \in IntrOps
       THEN LET r == IfStep(e) IN
            /\ ifl' = r.ifl /\ stack' = r.stack /\ UNCHANGED reg
            /\ bad' = IF r.ok THEN bad ELSE IF Mismatch THEN bad + 1 ELSE bad
       ELSE /\ bad' = IF Check(e) THEN bad ELSE IF Mismatch THEN bad + 1 ELSE bad
            /\ UNCHANGED <<ifl, stack, reg>>

Spec == Init /\ [][Next]_vars

Consumed == TLCGet("stats").diameter = Len(Rec) + 1
Post == IF Consumed THEN PrintT(<<"CONSUMED", Len(Rec)>>)
        ELSE PrintT(<<"STUCK", TLCGet("stats").diameter>>) /\ FALSE
=============================================================================
