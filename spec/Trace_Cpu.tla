------------------------------ MODULE Trace_Cpu ------------------------------
(***************************************************************************)
(* Trace validation for the instruction wrappers that run on the ring-3    *)
(* trap-and-emulate CPU: I/O ports (C18), interrupt flag (C17), TLB flush  *)
(* operations (C11) and system registers (C16).                            *)
(*                                                                         *)
(* Each event is one call of a real wrapper together with the privileged   *)
(* instructions that trapped while it ran (mnemonic + operand registers /  *)
(* memory operand as the CPU would have seen them).  The wrapper contract  *)
(* is stated on what the hardware would observe, not on how the wrapper    *)
(* computes it.                                                            *)
(***************************************************************************)
EXTENDS Cpu, Integers, Json, IOUtils

Rec == ndJsonDeserialize(IOEnv.TRACE)

VARIABLES l, bad,
          ifl,      \* specification's interrupt flag
          stack,    \* active without_interrupts calls: [saved, ran]
          reg       \* emulated register file as the specification sees it (C16), name -> Word

vars == <<l, bad, ifl, stack, reg>>

Small(w) == w[1] + LM * w[2]

-----------------------------------------------------------------------------
(* C18 *)
PortBlockOK(e) ==
    \A d \in 1 .. 256 :
       /\ e.counts[d] = 1                                   \* exactly one port instruction
       /\ e.ports[d] = e.base + d - 1                        \* on exactly this port (DX)
       /\ e.widths[d] = e.w                                  \* of exactly this width
       /\ e.mn[d] = (IF e.write = 1 THEN 5 ELSE 4)           \* out / in
       /\ (e.write = 1 => e.vals[d] = e.given[d])            \* the value written is the value given
       /\ (e.write = 0 => e.rets[d] = e.vals[d])             \* the value returned is the device's
PortEqOK(e) ==
    LET same == IF e.p = e.q THEN 1 ELSE 0
    IN e.eq = << same, same, same, 1 >> /\ e.clone_port = e.p /\ e.clone_ok = 1

PortMultiOK(e) ==
    /\ e.cf_eq = 1 /\ e.cf_port = e.q                         \* clone_from refers to the source's port
    /\ e.n2 = 2 /\ e.ports2 = << e.p, e.p >>                   \* two reads = two accesses
    /\ e.rets2 = e.vals2                                      \* each returns what the device supplied
    /\ e.n1 = 1 /\ e.port1 = e.q                              \* a discarded read still happens

-----------------------------------------------------------------------------
(* C11: standalone flushes *)
OneInvlpg(ins, addr) == Len(ins) = 1 /\ ins[1].m = "invlpg" /\ ins[1].a = addr
FlushAllOK(e) ==     \* reload CR3 with its current value; nothing else is written
    LET ws == { k \in 1 .. Len(e.instrs) : e.instrs[k].m # "mov_from_cr" }
    IN /\ Cardinality(ws) = 1
       /\ \A k \in 1 .. Len(e.instrs) :
             /\ e.instrs[k].m \in {"mov_from_cr", "mov_to_cr"}
             /\ e.instrs[k].a = W(3)
             /\ (e.instrs[k].m = "mov_to_cr" => e.instrs[k].c = e.cr3)
       /\ e.after = e.cr3
PcidBlockOK(e) == \A d \in 1 .. 256 : e.vals[d] = (IF e.base + d - 1 < 4096 THEN e.base + d - 1 ELSE -1)

-----------------------------------------------------------------------------
(* C17 *)
IfStep(e) ==   \* -> [ok, ifl, stack]
    LET ins == e.instrs
        after == IfAfter(ifl, ins, 1)
        only(S) == OnlyMnemonics(ins, S)
        st(ok, s) == [ok |-> ok /\ e.if = after, ifl |-> after, stack |-> s]
        top == stack[Len(stack)]
    IN CASE e.op = "enable" -> st(only({"sti"}) /\ after = 1, stack)
         [] e.op = "disable" -> st(only({"cli"}) /\ after = 0, stack)
         [] e.op = "are_enabled" -> st(ins = << >> /\ e.ret = ifl, stack)
         [] e.op = "enable_and_hlt" ->
               st(/\ Len(ins) = 2 /\ ins[1].m = "sti" /\ ins[2].m = "hlt"
                  /\ ins[2].rip = Add(ins[1].rip, W(1)).v          \* back to back: nothing in between
                  /\ after = 1, stack)
         [] e.op = "wi_enter" -> st(ins = << >>, Append(stack, [saved |-> ifl, ran |-> 0]))
         [] e.op = "body" ->
               st(/\ stack # << >> /\ only({"cli", "sti"})
                  /\ after = 0                                     \* the closure runs with IF clear
                  /\ top.ran = 0,
                  IF stack = << >> THEN stack ELSE [stack EXCEPT ![Len(stack)].ran = 1])
         [] e.op = "body_end" -> st(ins = << >> /\ after = 0, stack)   \* driver obligation
         [] e.op = "wi_exit" ->
               st(/\ stack # << >> /\ only({"cli", "sti"})
                  /\ after = top.saved                             \* flag exactly as before the call
                  /\ top.ran = 1 /\ e.calls = 1                    \* closure ran exactly once
                  /\ e.ret = e.expect,                             \* and its result is returned
                  IF stack = << >> THEN stack ELSE SubSeq(stack, 1, Len(stack) - 1))
         [] OTHER -> [ok |-> FALSE, ifl |-> ifl, stack |-> stack]

IntrOps == {"enable", "disable", "are_enabled", "enable_and_hlt", "wi_enter", "body", "body_end", "wi_exit"}

-----------------------------------------------------------------------------
(* C16: system-register wrappers.  e.pre = register content before the call (preset by the
   harness), e.instrs = the privileged instructions that trapped, e.mask = the bits the
   wrapper's type models, e.p = arguments, e.r = returned values. *)
IsRead(i) == i.m \in {"mov_from_cr", "mov_from_dr", "rdmsr"}
IsWrite(i) == i.m \in {"mov_to_cr", "mov_to_dr", "wrmsr"}

(* every trapped instruction addresses the register the wrapper is named after *)
Targets(e) ==
    \A k \in 1 .. Len(e.instrs) :
       LET i == e.instrs[k] IN
       CASE e.rk = "cr"  -> i.m \in {"mov_from_cr", "mov_to_cr"} /\ i.a = W(e.rn)
         [] e.rk = "dr"  -> i.m \in {"mov_from_dr", "mov_to_dr"} /\ i.a = W(e.rn)
         [] e.rk = "msr" -> i.m \in {"rdmsr", "wrmsr"} /\ i.a = e.ri       \* ECX = MSR number
         [] OTHER -> TRUE

(* architectural effect of the sequence: a read returns the current content, a write replaces it *)
RECURSIVE Replay(_, _, _)
Replay(cur, ins, k) ==
    IF k > Len(ins) THEN [ok |-> TRUE, v |-> cur]
    ELSE IF IsRead(ins[k]) THEN (IF ins[k].c = cur THEN Replay(cur, ins, k + 1) ELSE [ok |-> FALSE, v |-> cur])
    ELSE IF IsWrite(ins[k]) THEN Replay(ins[k].c, ins, k + 1)
    ELSE [ok |-> FALSE, v |-> cur]

WrittenVals(ins) == LET ks == { k \in 1 .. Len(ins) : IsWrite(ins[k]) }
                        RECURSIVE sq(_)
                        sq(k) == IF k > Len(ins) THEN << >>
                                 ELSE (IF k \in ks THEN << ins[k].c >> ELSE << >>) \o sq(k + 1)
                    IN sq(1)

AddrFieldW == MaskW(12, 52)
StarMsr == <<129, 49152, 0, 0>>
XcrValid(f) ==
    LET b(n) == Bit(f, n) = 1 IN
    /\ b(0)
    /\ (b(2) => b(1))
    /\ (b(3) <=> b(4))
    /\ ((b(5) \/ b(6) \/ b(7)) => (b(2) /\ b(5) /\ b(6) /\ b(7)))

RegContract(e) ==
    LET api == e.api
        pre == e.pre
        m == e.mask
        p1 == e.p[1]  p2 == e.p[2]  p3 == e.p[3]  p4 == e.p[4]
        wv == WrittenVals(e.instrs)
        flags(x) == AndW(x, m)
        keep(x) == AndW(x, NotW(m))
        frame(x) == AndW(x, AddrFieldW)
        low12(x) == AndW(x, LowMask(12))
        ok == e.k = "ok"
        upd == UpdateVal(pre, m, p1, p2)
        none == e.instrs = << >>
        oneI(mn) == Len(e.instrs) = 1 /\ e.instrs[1].m = mn
    IN
    CASE api \in {"Cr0::read", "Cr4::read", "Efer::read", "Dr6::read", "Dr7::read"} ->
            ok /\ wv = << >> /\ e.r = << flags(pre) >>
      [] api \in {"Cr0::read_raw", "Cr4::read_raw", "Efer::read_raw", "Dr6::read_raw", "Dr7::read_raw",
                  "Cr2::read_raw", "Dr0::read", "Dr1::read", "Dr2::read", "Dr3::read", "Msr::read",
                  "FsBase::read", "GsBase::read", "KernelGsBase::read", "LStar::read", "Pat::read",
                  "SFMask::read"} ->
            ok /\ wv = << >> /\ e.r = << pre >>
      [] api \in {"Cr0::write", "Cr4::write", "Efer::write", "Dr7::write"} ->
            ok /\ wv = << TypedWriteVal(pre, m, p1) >>       \* unmodelled bits preserved
      [] api \in {"Cr0::write_raw", "Cr4::write_raw", "Efer::write_raw", "Dr7::write_raw",
                  "Dr0::write", "Dr1::write", "Dr2::write", "Dr3::write", "Msr::write",
                  "FsBase::write", "GsBase::write", "KernelGsBase::write", "LStar::write",
                  "Pat::write", "SFMask::write"} ->
            ok /\ wv = << p1 >>
      [] api \in {"Cr0::update", "Cr4::update", "Efer::update", "Dr7::update"} ->
            ok /\ e.r = << flags(pre) >> /\ wv = << upd >>
      [] api = "SFMask::update" -> ok /\ e.r = << pre >> /\ wv = << AndW(OrW(pre, p1), NotW(p2)) >>
      [] api = "Cr2::read" -> wv = << >> /\ (IF Canonical(pre) THEN ok /\ e.r = << pre >> ELSE e.k = "err")
      [] api = "Cr3::read" -> ok /\ wv = << >> /\ e.r = << frame(pre), flags(pre) >>
      [] api \in {"Cr3::read_raw", "Cr3::read_pcid"} -> ok /\ wv = << >> /\ e.r = << frame(pre), low12(pre) >>
      [] api \in {"Cr3::write", "Cr3::write_pcid", "Cr3::write_raw"} -> ok /\ wv = << OrW(p1, p2) >>
      [] api = "Cr3::write_pcid_no_flush" -> ok /\ wv = << OrW(OrW(p1, p2), PowW(63)) >>
      [] api = "Cr3::update" -> ok /\ e.r = << frame(pre), flags(pre) >> /\ wv = << OrW(p1, p2) >>
      [] api = "Cr3::update_pcid" -> ok /\ e.r = << frame(pre), low12(pre) >> /\ wv = << OrW(p1, p2) >>
      [] api = "Cr3::update_pcid_no_flush" ->
            ok /\ e.r = << frame(pre), low12(pre) >> /\ wv = << OrW(OrW(p1, p2), PowW(63)) >>
      [] api = "Star::read_raw" -> ok /\ wv = << >> /\ e.r = << W(pre[4]), W(pre[3]) >>
      [] api = "Star::read" ->
            ok /\ wv = << >> /\ e.r = << W(pre[4] + 16), W(pre[4] + 8), W(pre[3]), W(pre[3] + 8) >>
      [] api = "Star::write_raw" -> ok /\ wv = << << 0, 0, p2[1], p1[1] >> >>
      [] api = "Star::write" ->
            LET cs_ret == p1[1]  ss_ret == p2[1]  cs_call == p3[1]  ss_call == p4[1]
                valid == /\ cs_ret - 16 = ss_ret - 8 /\ cs_call = ss_call - 8
                         /\ ss_ret % 4 = 3 /\ ss_call % 4 = 0
            IN IF valid THEN ok /\ wv = << << 0, 0, cs_call, ss_ret - 8 >> >>
                             \* ... and the next typed read returns the four selectors written
                             /\ << ss_ret - 8 + 16, ss_ret - 8 + 8, cs_call, cs_call + 8 >> = << cs_ret, ss_ret, cs_call, ss_call >>
               ELSE e.k = "err" /\ wv = << >>                \* rejected without writing
      [] api \in {"UCet::read", "SCet::read"} -> ok /\ wv = << >> /\ e.r = << flags(pre), AlignDownV(pre, 12) >>
      [] api \in {"UCet::write", "SCet::write"} -> ok /\ wv = << OrW(p1, p2) >>
      [] api \in {"UCet::update", "SCet::update"} ->
            ok /\ e.r = << flags(pre), AlignDownV(pre, 12) >> /\ wv = << OrW(p1, p2) >>
      [] api = "ApicBase::read" -> ok /\ wv = << >> /\ e.r = << frame(pre), flags(pre) >>
      [] api = "ApicBase::read_raw" -> ok /\ wv = << >> /\ e.r = << frame(pre), pre >>
      [] api = "ApicBase::write" ->
            ok /\ wv = << OrW(OrW(AndW(keep(pre), NotW(AddrFieldW)), p2), p1) >>
      [] api = "ApicBase::write_raw" -> ok /\ wv = << OrW(p2, p1) >>
      [] api = "XCr0::read" -> ok /\ none /\ e.r = << flags(pre) >>
      [] api = "XCr0::read_raw" -> ok /\ none /\ e.r = << pre >>
      [] api = "XCr0::write" ->
            IF XcrValid(p1)
            THEN ok /\ oneI("xsetbv") /\ e.instrs[1].a = ZeroW /\ e.instrs[1].c = OrW(keep(pre), p1)
            ELSE e.k = "panic" /\ none                          \* rejected without writing
      [] api = "XCr0::update" ->
            LET nf == AndW(OrW(flags(pre), p1), NotW(p2)) IN
            IF XcrValid(nf)
            THEN ok /\ e.r = << flags(pre) >> /\ oneI("xsetbv") /\ e.instrs[1].a = ZeroW
                    /\ e.instrs[1].c = OrW(keep(pre), nf)
            ELSE e.k = "panic" /\ none
      [] api = "XCr0::write_raw" -> ok /\ oneI("xsetbv") /\ e.instrs[1].a = ZeroW /\ e.instrs[1].c = p1
      [] api \in {"SS::set_reg", "DS::set_reg", "ES::set_reg", "FS::set_reg", "GS::set_reg"} ->
            ok /\ oneI("mov_to_sreg") /\ e.instrs[1].a = p2 /\ e.instrs[1].c = p1
      [] api = "CS::set_reg" -> ok /\ oneI("retfq") /\ e.instrs[1].c = p1
      [] api = "load_tss" -> ok /\ oneI("ltr") /\ e.instrs[1].a = p1
      [] api = "GS::swap" -> ok /\ oneI("swapgs")
      [] api \in {"CS::get_reg", "SS::get_reg", "DS::get_reg", "ES::get_reg", "FS::get_reg", "GS::get_reg",
                  "GS::read_base", "FS::read_base"} -> ok /\ none /\ e.r = << pre >>
      [] api \in {"GS::write_base", "FS::write_base"} -> ok /\ none /\ e.r = << p1 >>
      [] OTHER -> FALSE

RegOK(e) ==
    /\ Targets(e)
    /\ (e.rk \in {"cr", "dr", "msr"} =>
           LET rp == Replay(e.pre, e.instrs, 1) IN rp.ok /\ rp.v = e.post)
    /\ RegContract(e)

FsBaseMsr == << 256, 49152, 0, 0 >>
GsBaseMsr == << 257, 49152, 0, 0 >>

-----------------------------------------------------------------------------
(* C17: the closure runs inside the window.  A memory cell is stored (a) before the call, loaded
   and stored (b) by the closure, loaded and stored (c) after the call; the interrupt handler
   samples and overwrites the cell at every cli (mark 3089) and sti (mark 1393).  The program
   is executed step by step over the cell; the observations must be the ones this sequential
   execution produces - a load hoisted over the cli or a store sunk below the sti shows. *)
WinProg(hasCli, hasSti) ==
    << "st_a" >> \o (IF hasCli THEN << "cli" >> ELSE << >>) \o << "ld_seen", "st_b" >>
                 \o (IF hasSti THEN << "sti" >> ELSE << >>) \o << "ld_after", "st_c" >>
RECURSIVE WinExec(_, _, _, _, _)
WinExec(prog, k, cell, obs, e) ==
    IF k > Len(prog) THEN [obs EXCEPT !.fin = cell]
    ELSE LET s == prog[k] IN
         CASE s = "st_a" -> WinExec(prog, k + 1, e.p[1], obs, e)
           [] s = "st_b" -> WinExec(prog, k + 1, e.p[2], obs, e)
           [] s = "st_c" -> WinExec(prog, k + 1, e.p[3], obs, e)
           [] s = "cli" -> WinExec(prog, k + 1, 3089, [obs EXCEPT !.hcli = cell], e)
           [] s = "sti" -> WinExec(prog, k + 1, 1393, [obs EXCEPT !.hsti = cell], e)
           [] s = "ld_seen" -> WinExec(prog, k + 1, cell, [obs EXCEPT !.seen = cell], e)
           [] s = "ld_after" -> WinExec(prog, k + 1, cell, [obs EXCEPT !.after = cell], e)
(* which instructions: a window that has to be opened (interrupts were enabled, or the explicit
   disable;enable pair) needs the cli before and the sti after the body; when the flag was already
   clear an implementation may or may not execute a (harmless) cli, but never an sti *)
WindowOK(e) ==
    LET ms == [k \in 1 .. Len(e.instrs) |-> e.instrs[k].m]
        opened == e.api = "disable;enable" \/ e.if0 = 1
        hasCli == ms # << >>
        hasSti == Len(ms) = 2
        prog == WinProg(hasCli, hasSti)
        o == WinExec(prog, 1, 0, [seen |-> 0, after |-> 0, hcli |-> 0, hsti |-> 0, fin |-> 0], e)
    IN /\ ms \in {<< >>, << "cli" >>, << "cli", "sti" >>}
       /\ (opened => hasSti) /\ (~opened => ~hasSti)
       /\ e.r = << o.seen, o.after, o.fin >>
       /\ e.h = << o.hcli, o.hsti >>
       /\ e.if1 = (IF e.api = "disable;enable" THEN 1 ELSE e.if0)

RECURSIVE SumW12(_)
SumW12(ws) == IF Len(ws) = 0 THEN ZeroW ELSE Add(SumW12(SubSeq(ws, 1, Len(ws) - 1)), ws[Len(ws)]).v

(* calling-context probes: the caller's live state (carry of a + b, the other arguments, twelve
   locals a + i) survives the inlined wrappers, and every trapped instruction received exactly the
   operand it was given *)
Lo(w, bits) == AndW(w, LowMask(bits))
WVal12(w) == w[1] % 4096
CtxOK(e) ==
    LET a == e.args[1]  b == e.args[2]  c == e.args[3]  d == e.args[4]  x == e.args[5]  f == e.args[6]
        ad == AddC(a, b, 0)
        ins == e.instrs
        M(k) == ins[k].m
        locals == [i \in 1 .. 12 |-> Add(a, W(i - 1)).v]
        base == /\ e.k = "ok"
                /\ e.got[1] = Add(ad.v, W(ad.c)).v                \* sum + carry: the flags survived
                /\ e.got[2] = XorW(c, d) /\ e.got[3] = XorW(x, f)   \* register-held arguments survived
                /\ e.got[4] = SumW12(locals)                       \* red-zone locals survived
        outOK(k, port, val, width) == M(k) = "out" /\ ins[k].a = Lo(port, 16) /\ ins[k].b = W(width)
                                      /\ ins[k].c = Lo(val, 8 * width)
        inOK(k, port, width) == M(k) = "in" /\ ins[k].a = Lo(port, 16) /\ ins[k].b = W(width)
        wr(k, msr, val) == M(k) = "wrmsr" /\ ins[k].a = W(msr) /\ ins[k].c = val
    IN base /\
       CASE e.name = "port_w32" -> Len(ins) = 2 /\ outOK(1, d, c, 4) /\ outOK(2, f, x, 4)
         [] e.name = "port_w16" -> Len(ins) = 2 /\ outOK(1, d, c, 2) /\ outOK(2, f, x, 1)
         [] e.name = "port_r" -> Len(ins) = 3 /\ inOK(1, d, 2) /\ inOK(2, f, 1) /\ inOK(3, c, 4)
         [] e.name = "msr_twice" ->
               LET wrs == SelectSeq(ins, LAMBDA i : i.m = "wrmsr") IN
               /\ Len(wrs) = 3
               /\ wrs[1].a = << 257, 49152, 0, 0 >> /\ wrs[1].c = SignExt(c)          \* IA32_GS_BASE
               /\ wrs[2].a = << 258, 49152, 0, 0 >> /\ wrs[2].c = SignExt(c)          \* IA32_KERNEL_GS_BASE
               /\ wrs[3].a = << 130, 49152, 0, 0 >> /\ wrs[3].c = SignExt(d)          \* IA32_LSTAR
         [] e.name = "dr_write" ->
               LET ws == SelectSeq(ins, LAMBDA i : i.m = "mov_to_dr") IN
               Len(ws) = 2 /\ ws[1].a = W(0) /\ ws[1].c = c /\ ws[2].a = W(7) /\ ws[2].c = d
         [] e.name = "cr4_carry" ->                        \* DR0 receives c + d + carry(c + d)
               LET cd == AddC(c, d, 0)
                   ws == SelectSeq(ins, LAMBDA i : i.m = "mov_to_dr") IN
               Len(ws) = 1 /\ ws[1].a = W(0) /\ ws[1].c = Add(cd.v, W(cd.c)).v
         [] e.name = "wi_carry" ->                         \* the branch follows the closure's carry
               LET cd == AddC(c, d, 0)
                   ws == SelectSeq(ins, LAMBDA i : i.m = "mov_to_dr") IN
               Len(ws) = 1 /\ ws[1].a = W(IF cd.c = 1 THEN 1 ELSE 0) /\ ws[1].c = cd.v
         [] e.name = "cs_twice" ->
               LET rs == SelectSeq(ins, LAMBDA i : i.m = "retfq")
                   ss == SelectSeq(ins, LAMBDA i : i.m = "mov_to_sreg") IN
               /\ Len(rs) = 2 /\ rs[1].c = Lo(c, 16) /\ rs[2].c = Lo(c, 16)
               /\ Len(ss) = 1 /\ ss[1].c = Lo(d, 16)
         [] e.name = "tlb" ->          \* invlpg c, invlpg d, CR3 reload with the value read, invlpg e twice
               LET iv == SelectSeq(ins, LAMBDA i : i.m = "invlpg")
                   cw == SelectSeq(ins, LAMBDA i : i.m = "mov_to_cr")
                   cr == SelectSeq(ins, LAMBDA i : i.m = "mov_from_cr") IN
               /\ Len(ins) = 6 /\ M(1) = "invlpg" /\ M(2) = "invlpg" /\ M(3) = "mov_from_cr" /\ M(4) = "mov_to_cr"
               /\ Len(iv) = 4
               /\ iv[1].a = SignExt(c) /\ iv[2].a = SignExt(d) /\ iv[3].a = SignExt(x) /\ iv[4].a = SignExt(x)
               /\ Len(cw) = 1 /\ Len(cr) = 1 /\ cw[1].a = W(3) /\ cr[1].a = W(3)
               /\ cw[1].c = << 20485, 4660, 0, 0 >>      \* the harness preset CR3 = 0x12345005
         [] e.name = "invpcid" ->
               /\ Len(ins) = 5
               /\ InvpcidOK(0, WVal12(d), SignExt(c), << ins[1] >>)
               /\ InvpcidOK(1, WVal12(x), ZeroW, << ins[2] >>)
               /\ InvpcidOK(2, 0, ZeroW, << ins[3] >>)
               /\ InvpcidOK(3, 0, ZeroW, << ins[4] >>)
               /\ InvpcidOK(1, WVal12(f), ZeroW, << ins[5] >>)
         [] e.name = "tables" ->
               /\ Len(ins) = 5
               /\ M(1) = "lgdt" /\ ins[1].b = Lo(c, 16) /\ ins[1].c = SignExt(d)
               /\ M(2) = "lidt" /\ ins[2].b = Lo(x, 16) /\ ins[2].c = SignExt(f)
               /\ M(3) = "ltr" /\ ins[3].a = Lo(c, 16)
               /\ M(4) = "lgdt" /\ ins[4].b = ins[2].b /\ ins[4].c = ins[2].c
               /\ M(5) = "lgdt" /\ ins[5].b = ins[2].b /\ ins[5].c = ins[2].c
         [] e.name = "segs" ->            \* DS, ES, FS, GS, SS in this order (sreg numbers 3, 0, 4, 5, 2)
               /\ Len(ins) = 5 /\ \A k \in 1 .. 5 : M(k) = "mov_to_sreg"
               /\ << ins[1].a, ins[2].a, ins[3].a, ins[4].a, ins[5].a >> = << W(3), W(0), W(4), W(5), W(2) >>
               /\ << ins[1].c, ins[2].c, ins[3].c, ins[4].c, ins[5].c >>
                    = << Lo(c, 16), Lo(d, 16), Lo(x, 16), Lo(f, 16), Lo(d, 16) >>
         [] OTHER -> TRUE      \* cr4_write, efer_update, wi, xcr0, gsbase, mxcsr, rflags: the base checks (and the probe's own assertions)

RECURSIVE SumW(_, _)
SumW(ws, n) == IF n = 0 THEN ZeroW ELSE Add(SumW(ws, n - 1), ws[n]).v

Check(e) ==
    CASE e.op = "port_block" -> PortBlockOK(e)
      [] e.op = "reg" -> RegOK(e)
      [] e.op = "window" -> WindowOK(e)
      [] e.op = "closure_result" ->     \* C17: the closure's result comes back unchanged
            /\ \A i \in 1 .. 16 : e.words[i] = Add(e.seed, W(i - 1)).v
            /\ e.sum = SumW(e.words, 16) /\ e.sum2 = e.sum /\ e.sum3 = e.sum /\ e.en = e.if
      [] e.op = "pcid_new" -> e.ok = (IF e.x < 4096 THEN 1 ELSE 0)
      [] e.op = "reg_seq" ->
            LET m == e.mask  a == e.p[1]  b == e.p[2]
            IN CASE e.api = "Cr4::update;Cr4::update" ->
                      LET v1 == UpdateVal(e.pre, m, a, ZeroW)
                          v2 == UpdateVal(v1, m, b, ZeroW)
                      IN e.r = << Modelled(e.pre, m), Modelled(v1, m) >> /\ e.post = v2
                           /\ WrittenVals(e.instrs) = << v1, v2 >>
                 [] e.api = "Efer::update;Efer::update" ->
                      LET v1 == UpdateVal(e.pre, m, a, ZeroW)
                          v2 == UpdateVal(v1, m, ZeroW, b)
                      IN e.r = << Modelled(e.pre, m), Modelled(v1, m) >> /\ e.post = v2
                           /\ WrittenVals(e.instrs) = << v1, v2 >>
                 [] e.api = "Dr7/Dr0 read;write;read" ->          \* mask carries the previous DR0
                      e.r = << e.pre, a, e.mask, b >> /\ e.post = a
                 [] e.api = "Cr3::read_raw;Cr3::write_raw;Cr3::read_raw" ->
                      LET lowm == LowMask(12)
                          fm == MaskW(12, 52)
                          new == OrW(a, b)
                      IN e.r = << AndW(e.pre, fm), AndW(e.pre, lowm), a, b >> /\ e.post = new
                 [] e.api = "Cr0::read_raw;Cr0::write_raw;Cr0::read_raw;Cr0::read" ->
                      e.r = << e.pre, a, Modelled(a, m) >> /\ e.post = a
                 [] OTHER -> FALSE
      [] e.op = "pat_default" -> e.v = << 1030, 7, 1030, 7 >>     \* power-on PAT: WB WT UC- UC WB WT UC- UC
      [] e.op = "seg_base_msr" ->
            /\ e.r = e.want /\ Len(e.instrs) = 2
            /\ e.instrs[1].m = "rdmsr" /\ e.instrs[1].a = FsBaseMsr
            /\ e.instrs[2].m = "rdmsr" /\ e.instrs[2].a = GsBaseMsr
      [] e.op = "rflags_rt" ->     \* the ID flag (bit 21) written is the ID flag read back
            /\ Bit(e.r[2], 21) # Bit(e.r[1], 21) /\ Bit(e.r[3], 21) = Bit(e.r[1], 21)
      [] e.op = "rflags_redzone" ->     \* locals of the caller survive the accessors: sum of seed + i, i < 16
            /\ e.r[1] = SumW([i \in 1 .. 16 |-> Add(e.seed, W(i - 1)).v], 16)
            /\ Bit(e.r[3], 21) # Bit(e.r[2], 21)
      [] e.op = "mxcsr_rt" -> e.got = e.v /\ e.ind = e.v
      [] e.op = "ctx" -> CtxOK(e)
      [] e.op = "pressure" ->       \* 13 register-held and 8 red-zone values survive one wrapper call
            LET ins == e.instrs  v == e.v  w == e.w
                one(m) == Len(ins) = 1 /\ ins[1].m = m IN
            /\ e.k = "ok"
            /\ \A i \in 1 .. 13 : e.got[i] = e.src[i]
            /\ \A i \in 1 .. 8 : e.got[13 + i] = XorW(e.src[i], W(23130))
            /\ CASE e.name = "xcr0_write_raw" -> one("xsetbv") /\ ins[1].a = ZeroW /\ ins[1].c = v
                 [] e.name = "lgdt" -> one("lgdt") /\ ins[1].b = Lo(w, 16) /\ ins[1].c = SignExt(v)
                 [] e.name = "lidt" -> one("lidt") /\ ins[1].b = Lo(w, 16) /\ ins[1].c = SignExt(v)
                 [] e.name = "load_tss" -> one("ltr") /\ ins[1].a = Lo(v, 16)
                 [] e.name = "invlpg" -> OneInvlpg(ins, SignExt(v))
                 [] e.name = "invpcid_addr" -> InvpcidOK(0, WVal12(w), SignExt(v), ins)
                 [] e.name = "invpcid_single" -> InvpcidOK(1, WVal12(w), ZeroW, ins)
                 [] e.name = "invpcid_all" -> InvpcidOK(IF v[1] % 2 = 0 THEN 2 ELSE 3, 0, ZeroW, ins)
                 [] e.name = "cs_set" -> one("retfq") /\ ins[1].c = Lo(v, 16)
                 [] e.name = "ds_set" -> one("mov_to_sreg") /\ ins[1].a = W(3) /\ ins[1].c = Lo(v, 16)
                 [] e.name = "swapgs" -> one("swapgs")
                 [] e.name = "cr3_write_raw" -> one("mov_to_cr") /\ ins[1].a = W(3) /\ ins[1].c = OrW(v, Lo(w, 16))
                 [] e.name = "cr3_write_pcid" -> one("mov_to_cr") /\ ins[1].a = W(3) /\ ins[1].c = OrW(v, Lo(w, 12))
                 [] e.name = "star_raw" ->       \* IA32_STAR: syscall base in bits 32..47, sysret base in 48..63, low half kept
                       LET ws == SelectSeq(ins, LAMBDA i : i.m = "wrmsr") IN
                       Len(ws) = 1 /\ ws[1].a = << 129, 49152, 0, 0 >>
                       /\ ws[1].c[3] = Lo(w, 16)[1] /\ ws[1].c[4] = Lo(v, 16)[1]
                 [] e.name = "cr0_write_raw" -> one("mov_to_cr") /\ ins[1].a = W(0) /\ ins[1].c = v
                 [] e.name = "cr4_write_raw" -> one("mov_to_cr") /\ ins[1].a = W(4) /\ ins[1].c = v
                 [] e.name = "dr7" -> Len(ins) = 2 /\ ins[1].m = "mov_to_dr" /\ ins[1].a = W(7) /\ ins[1].c = v
                                      /\ ins[2].m = "mov_from_dr" /\ ins[2].a = W(7)
                 [] e.name = "msr_write" -> one("wrmsr") /\ ins[1].c = v
                 [] e.name = "port_w8" -> one("out") /\ ins[1].a = Lo(w, 16) /\ ins[1].b = W(1) /\ ins[1].c = Lo(v, 8)
                 [] e.name = "port_w16" -> one("out") /\ ins[1].a = Lo(w, 16) /\ ins[1].b = W(2) /\ ins[1].c = Lo(v, 16)
                 [] e.name = "port_w32" -> one("out") /\ ins[1].a = Lo(w, 16) /\ ins[1].b = W(4) /\ ins[1].c = Lo(v, 32)
                 [] e.name \in {"port_r8", "port_r16", "port_r32"} -> one("in") /\ ins[1].a = Lo(w, 16)
                 [] e.name = "enable" -> one("sti")
                 [] e.name = "disable" -> one("cli")
                 [] e.name = "enable_hlt" -> Len(ins) = 2 /\ ins[1].m = "sti" /\ ins[2].m = "hlt"
                 [] e.name = "wi" -> Len(ins) = 2 /\ ins[1].m = "cli" /\ ins[2].m = "sti"
                 [] OTHER -> TRUE
      [] e.op = "rwr" ->            \* read; write x; read inside one function, register preset to p (both fully modelled)
            e.k = "ok" /\ e.r = << e.p, e.x >>
      [] e.op = "lean" ->
            LET a == e.args[1]  b == e.args[2]  ab == AddC(a, b, 0) IN
            e.k = "ok" /\
            CASE e.name = "cr4_carry" ->      \* DR0 := a + b + carry, with a typed CR4 write in between
                    LET ws == SelectSeq(e.instrs, LAMBDA i : i.m = "mov_to_dr") IN
                    Len(ws) = 1 /\ ws[1].a = W(0) /\ ws[1].c = Add(ab.v, W(ab.c)).v
              [] e.name = "wi_carry" ->       \* counter := a + b, wraps (was 5) counts the carry
                    e.got = << ab.v, W(5 + ab.c) >>
              [] e.name = "ltr_busy" ->       \* the CPU saw the descriptor just stored and marked it busy (bit 41)
                    /\ Len(e.instrs) = 1 /\ e.instrs[1].m = "ltr" /\ e.instrs[1].a = W(24)
                    /\ e.instrs[1].b = a /\ e.instrs[1].c = b
                    /\ e.got = << OrW(a, << 0, 0, 512, 0 >>), b >>
              [] e.name = "port_w32" ->
                    Len(e.instrs) = 1 /\ e.instrs[1].m = "out" /\ e.instrs[1].a = b
                    /\ e.instrs[1].b = W(4) /\ e.instrs[1].c = a
              [] OTHER -> FALSE
      [] e.op = "dr7_rt" -> e.got = e.want /\ e.got_flags = e.flags     \* DR7 fields written are read back
      [] e.op = "mxcsr_upd" -> e.got = e.v /\ e.seen = e.saved
      [] e.op = "port_eq" -> PortEqOK(e)
      [] e.op = "port_multi" -> PortMultiOK(e)
      [] e.op = "flush" -> OneInvlpg(e.instrs, e.addr)
      [] e.op = "token_flush" -> OneInvlpg(e.instrs, e.page)
      [] e.op = "flush_all" -> FlushAllOK(e)
      [] e.op = "pcid_block" -> PcidBlockOK(e)
      [] e.op = "flush_pcid" -> InvpcidOK(e.kind, e.pcid, e.addr, e.instrs)
      [] e.op = "tlbsync" -> Len(e.instrs) = 1 /\ e.instrs[1].m = "tlbsync"
      [] e.op = "invlpgb_flush" -> BroadcastOK(e, e.instrs)
      [] e.op = "invlpgb_all" -> BroadcastAllOK(e, e.instrs)
      [] e.op = "invlpgb_caps" -> e.got = << e.count_max, e.nested, e.nasid >>
      [] OTHER -> FALSE

Init == l = 1 /\ bad = 0 /\ ifl = 1 /\ stack = << >> /\ reg = << >>

Mismatch == PrintT(<<"MISMATCH", l>>)

Next ==
    /\ l <= Len(Rec)
    /\ l' = l + 1
    /\ LET e == Rec[l] IN
       IF e.op = "reset"
       THEN ifl' = e.if /\ stack' = << >> /\ UNCHANGED <<bad, reg>>
       ELSE IF e.op \in IntrOps
       THEN LET r == IfStep(e) IN
            /\ ifl' = r.ifl /\ stack' = r.stack /\ UNCHANGED reg
            /\ bad' = IF r.ok THEN bad ELSE IF Mismatch THEN bad + 1 ELSE bad
       ELSE /\ bad' = IF Check(e) THEN bad ELSE IF Mismatch THEN bad + 1 ELSE bad
            /\ UNCHANGED <<ifl, stack, reg>>

Spec == Init /\ [][Next]_vars

Consumed == TLCGet("stats").diameter = Len(Rec) + 1
Post == IF Consumed THEN PrintT(<<"CONSUMED", Len(Rec)>>)
        ELSE PrintT(<<"STUCK", TLCGet("stats").diameter>>) /\ FALSE
=============================================================================
