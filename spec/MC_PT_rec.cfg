CONSTANTS
  LB = 16
  VB = 48
  PB = 52
  OB = 12
  IB = 9
  RIdx = 3
  I4 = {0}
  I3 = {0}
  I2 = {0, 1}
  I1 = {0}
  NTF = 3
  LeafFs = {{0}, {0, 1, 2}, {0, 12}}
  ParentFs = {{0, 1}}
  Extras = {{0, 1}}
SPECIFICATION Spec
VIEW View
INVARIANT Inv
PROPERTIES StepProps
CHECK_DEADLOCK FALSE
