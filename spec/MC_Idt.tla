------------------------------- MODULE MC_Idt -------------------------------
(***************************************************************************)
(* Design check for C12: the option setters as a state machine over a few  *)
(* vectors: every setter changes only its own field of only its own gate;  *)
(* the handler address is kept; encode/decode of the architectural gate    *)
(* format round-trip; reserved bits of every reachable gate are zero.      *)
(***************************************************************************)
EXTENDS Idt

CONSTANT Vecs
VARIABLE lastv

SmallDom == {3, 32, 255}
Addrs == { << 65535, 65535, 65535, 65535 >>, << 4660, 22136, 39612, 0 >> }
Init == gates = [v \in VecDom |-> Missing] /\ lastv = 0
Next == \E v \in Vecs :
          /\ lastv' = v
          /\ \/ \E a \in Addrs : \E cs \in {51} : SetHandlerAddr(v, a, cs)
             \/ \E b \in {0, 1} : SetPresent(v, b)
             \/ \E b \in {0, 1} : DisableInterrupts(v, b)
             \/ \E d \in {0, 3} : SetPrivilegeLevel(v, d)
             \/ \E i \in {0, 6} : SetStackIndex(v, i)
             \/ Reset
Spec == Init /\ [][Next]_<<gates, lastv>>

Inv == \A v \in VecDom :
         LET g == gates[v]
             e == Encode(g)
         IN /\ Decode(e[1], e[2]) = g
            /\ ReservedZero(e[1], e[2])
            /\ g.type \in {InterruptGate, TrapGate}
OnlyOwnGate == [][ \/ gates' = [v \in VecDom |-> Missing]
                   \/ \A v \in VecDom : v # lastv' => gates'[v] = gates[v] ]_<<gates, lastv>>
MissingEncoding == Encode(Missing) = << << 0, 0, 3584, 0 >>, ZeroW >>      \* 0x0000_0E00_0000_0000
ASSUME MissingEncoding
=============================================================================
