------------------------------ MODULE Trace_Idt ------------------------------
(***************************************************************************)
(* Trace validation for the IDT (C12) and the general-handler stubs (C13). *)
(* The harness dumps the raw 4096 bytes of the table around every call and *)
(* logs the 16-byte gates that changed; the specification keeps the table  *)
(* decoded (Idt.tla) and compares with its architectural encoding.         *)
(***************************************************************************)
EXTENDS Idt, Integers, Json, IOUtils

Rec == ndJsonDeserialize(IOEnv.TRACE)
VARIABLES l, bad

AllMissing(ws) == Len(ws) = 512 /\ \A v \in 0 .. 255 : << ws[2 * v + 1], ws[2 * v + 2] >> = Encode(Missing)

(* the dump of changed gates must be exactly: vector v now encodes g (or nothing if g is unchanged) *)
ChangedIs(e, v, g) ==
    IF g = gates[v] THEN e.vs = << >> /\ e.ws = << >>
    ELSE e.vs = << v >> /\ e.ws = Encode(g)
NothingChanged(e) == e.vs = << >> /\ e.ws = << >>

(* which access path can reach which vector *)
NamedField == (0 .. 8) \cup (10 .. 14) \cup (16 .. 21) \cup (28 .. 30)
Reaches(path, v) ==
    CASE path = "field" -> v \in NamedField
      [] path = "index" -> v \notin IndexRefused
      [] OTHER -> v >= 32

SetStep(e) ==   \* -> [ok, g]
    LET v == e.v
        g == [present |-> 1, addr |-> e.addr, cs |-> e.cs, ist |-> 0, type |-> InterruptGate, dpl |-> 0]
    IN IF Reaches(e.path, v)
       THEN [ok |-> e.k = "ok" /\ ChangedIs(e, v, g) /\ e.back = e.addr, v |-> v, g |-> g]
       ELSE [ok |-> e.k \in {"panic", "nopath"} /\ NothingChanged(e), v |-> v, g |-> gates[v]]

OptStep(e) ==
    LET v == e.v
        o == gates[v]
        g == CASE e.setter = "set_present" -> [o EXCEPT !.present = e.arg]
               [] e.setter = "disable_interrupts" -> [o EXCEPT !.type = IF e.arg = 1 THEN InterruptGate ELSE TrapGate]
               [] e.setter = "set_privilege_level" -> [o EXCEPT !.dpl = e.arg]
               [] e.setter = "set_stack_index" -> [o EXCEPT !.ist = e.arg + 1]
               [] e.setter = "set_code_selector" -> [o EXCEPT !.cs = e.arg]
               [] OTHER -> o
    IN [ok |-> e.k = "ok" /\ ChangedIs(e, v, g) /\ e.back = o.addr, v |-> v, g |-> g]

IndexOK(e) ==
    LET v == e.v IN
    /\ (IF v \in IndexRefused THEN e.off = -1 /\ e.off_mut = -1 ELSE e.off = 16 * v /\ e.off_mut = 16 * v)
    /\ (IF v \in NamedField THEN e.field_off = 16 * v ELSE e.field_off = -1)

RangeOK(e) ==
    LET r == RangeAccess(e.sk, e.a, e.ek, e.b)
    IN e.k = r.k /\ (r.k = "ok" => (e.off = r.off /\ e.len = r.len)) /\ e.mut_same = 1

Pure(e) ==
    CASE e.op = "idt_dump" -> AllMissing(e.gates) /\ e.size = 4096 /\ e.align = 16
      [] e.op = "idt_clone" -> e.gates = e.orig
      [] e.op = "idt_index" -> IndexOK(e)
      [] e.op = "idt_range" -> RangeOK(e)
      [] e.op = "idt_load" -> /\ e.k = "ok" /\ Len(e.instrs) = 1 /\ e.instrs[1].m = "lidt"
                              /\ e.instrs[1].c = e.table /\ e.instrs[1].b = W(4095)
      [] OTHER -> FALSE

Init == l = 1 /\ bad = 0 /\ gates = [v \in 0 .. 255 |-> Missing]
Miss == PrintT(<<"MISMATCH", l>>)
Next ==
    /\ l <= Len(Rec) /\ l' = l + 1
    /\ LET e == Rec[l] IN
       IF e.op \in {"idt_set", "idt_opt"}
       THEN LET r == IF e.op = "idt_set" THEN SetStep(e) ELSE OptStep(e) IN
            IF r.ok THEN gates' = [gates EXCEPT ![r.v] = r.g] /\ bad' = bad
            ELSE Miss /\ bad' = bad + 1 /\ UNCHANGED gates
       ELSE IF e.op = "idt_dump" /\ e.kind = "reset"
       THEN /\ gates' = [v \in 0 .. 255 |-> Missing]
            /\ bad' = IF Pure(e) THEN bad ELSE IF Miss THEN bad + 1 ELSE bad
       ELSE /\ bad' = IF Pure(e) THEN bad ELSE IF Miss THEN bad + 1 ELSE bad
            /\ UNCHANGED gates
Spec == Init /\ [][Next]_<<l, bad, gates>>
Consumed == TLCGet("stats").diameter = Len(Rec) + 1
Post == IF Consumed THEN PrintT(<<"CONSUMED", Len(Rec)>>)
        ELSE PrintT(<<"STUCK", TLCGet("stats").diameter>>) /\ FALSE
=============================================================================
