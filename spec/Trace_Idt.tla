------------------------------ MODULE Trace_Idt ------------------------------
(***************************************************************************)
(* Trace validation for the IDT (C12) and the general-handler stubs (C13). *)
(* The harness dumps the raw 4096 bytes of the table around every call and *)
(* logs the 16-byte gates that changed; the specification keeps the table  *)
(* decoded (Idt.tla) and compares with its architectural encoding.         *)
(***************************************************************************)
EXTENDS Idt, Integers, Json, IOUtils

Rec == ndJsonDeserialize(IOEnv.TRACE)
VARIABLES l, bad

AllMissing(ws) == Len(ws) = 512 /\ \A v \in 0 .. 255 : << ws[2 * v + 1], ws[2 * v + 2] >> = Encode(Missing)

(* the dump of changed gates must be exactly: vector v now encodes g (or nothing if g is unchanged) *)
ChangedIs(e, v, g) ==
    IF g = gates[v] THEN e.vs = << >> /\ e.ws = << >>
    ELSE e.vs = << v >> /\ e.ws = Encode(g)
NothingChanged(e) == e.vs = << >> /\ e.ws = << >>

(* which access path can reach which vector *)
NamedField == (0 .. 8) \cup (10 .. 14) \cup (16 .. 21) \cup (28 .. 30)
Reaches(path, v) ==
    CASE path = "field" -> v \in NamedField
      [] path = "index" -> v \notin IndexRefused
      [] OTHER -> v >= 32

SetStep(e) ==   \* -> [ok, g]
    LET v == e.v
        g == [present |-> 1, addr |-> e.addr, cs |-> e.cs, ist |-> 0, type |-> InterruptGate, dpl |-> 0]
    IN IF Reaches(e.path, v)
       THEN [ok |-> e.k = "ok" /\ ChangedIs(e, v, g) /\ e.back = e.addr, v |-> v, g |-> g]
       ELSE [ok |-> e.k \in {"panic", "nopath"} /\ NothingChanged(e), v |-> v, g |-> gates[v]]

OptStep(e) ==
    LET v == e.v
        o == gates[v]
        g == CASE e.setter = "set_present" -> [o EXCEPT !.present = e.arg]
               [] e.setter = "disable_interrupts" -> [o EXCEPT !.type = IF e.arg = 1 THEN InterruptGate ELSE TrapGate]
               [] e.setter = "set_privilege_level" -> [o EXCEPT !.dpl = e.arg]
               [] e.setter = "set_stack_index" -> [o EXCEPT !.ist = e.arg + 1]
               [] e.setter = "set_code_selector" -> [o EXCEPT !.cs = e.arg]
               [] OTHER -> o
    IN [ok |-> e.k = "ok" /\ ChangedIs(e, v, g) /\ e.back = o.addr, v |-> v, g |-> g]

IndexOK(e) ==
    LET v == e.v IN
    /\ (IF v \in IndexRefused THEN e.off = -1 /\ e.off_mut = -1 ELSE e.off = 16 * v /\ e.off_mut = 16 * v)
    /\ (IF v \in NamedField THEN e.field_off = 16 * v ELSE e.field_off = -1)

RangeOK(e) ==
    LET r == RangeAccess(e.sk, e.a, e.ek, e.b)
    IN e.k = r.k /\ (r.k = "ok" => (e.off = r.off /\ e.len = r.len)) /\ e.mut_same = 1

-----------------------------------------------------------------------------
(* C13 *)
GateAt(ws, v) == Decode(ws[2 * v + 1], ws[2 * v + 2])
SghOK(e) ==
    LET lo == e.lo
        hiX == CASE e.form = "excl" -> e.hi [] e.form = "all" -> 256 [] OTHER -> e.hi + 1
        lo2 == IF e.form = "all" THEN 0 ELSE lo
        T == GeneralTargets(lo2, hiX)
        G == [v \in T |-> GateAt(e.after, v)]                       \* decoded once per target vector
    IN /\ e.k = "ok"
       /\ \A v \in 0 .. 255 :
            IF v \in T
            THEN LET g == G[v] IN                                    \* made present, architectural defaults
                 /\ g.present = 1 /\ g.cs = e.cs /\ g.type = InterruptGate /\ g.dpl = 0 /\ g.ist = 0
                 /\ ReservedZero(e.after[2 * v + 1], e.after[2 * v + 2])
                 /\ Canonical(g.addr) /\ g.addr # ZeroW
            ELSE /\ e.after[2 * v + 1] = e.before[2 * v + 1]          \* everything else untouched
                 /\ e.after[2 * v + 2] = e.before[2 * v + 2]

(* records: type 1 = general handler called <<1, idx, hasErr, err, ip, cs, flags, sp, ss, nCalls>>,
            type 2 = execution resumed <<2, rsp, rflags, nCalls, resumeIp, ...>> *)
DeliverOK(e) ==
    LET v == e.v
        g == Decode(e.lo, e.hi)
        hasErr == IF v \in ErrorCodeVectors THEN 1 ELSE 0
        n == Len(e.cases)
        call(i) == e.recs[IF v \in Diverging THEN i ELSE 2 * i - 1]
        ret(i) == e.recs[2 * i]
    IN IF v \in Reserved THEN e.k = "absent" /\ g.present = 0
       ELSE /\ e.k = "present" /\ g.present = 1 /\ g.addr = e.target
            /\ e.status = 0
            /\ Len(e.recs) = (IF v \in Diverging THEN n ELSE 2 * n)
            /\ \A i \in 1 .. n :
                 LET c == e.cases[i]  r1 == call(i) IN
                 /\ r1[1] = W(1) /\ r1[2] = W(v)                          \* called with index v
                 /\ r1[3] = W(hasErr)                                     \* error code exactly when the vector defines one
                 /\ (hasErr = 1 => r1[4] = c[1])                          \* ... and it is the pushed value
                 /\ r1[6] = W(e.cs) /\ r1[7] = c[2] /\ r1[8] = c[3] /\ r1[9] = W(e.ss)   \* pushed frame contents
                 /\ r1[10] = W(1)                                         \* exactly once
                 /\ (v \notin Diverging =>
                       LET r2 == ret(i) IN
                       /\ r2[1] = W(2)
                       /\ r2[2] = c[3]                                    \* resumes at the interrupted stack pointer
                       /\ r2[3] = c[2]                                    \* with the pushed flags
                       /\ r2[4] = W(1)
                       /\ r1[5] = r2[5])                                  \* frame.rip = the instruction it resumed at

Pure(e) ==
    CASE e.op = "idt_dump" -> AllMissing(e.gates) /\ e.size = 4096 /\ e.align = 16
      [] e.op = "idt_clone" -> e.gates = e.orig
      [] e.op = "sgh" -> SghOK(e)
      [] e.op = "deliver" -> DeliverOK(e)
      [] e.op = "iretq" -> e.k = "landed" /\ e.rsp = e.sp /\ e.rflags = e.flags /\ e.status = 0 /\ e.nrecs = 1
      [] e.op = "idt_index" -> IndexOK(e)
      [] e.op = "idt_range" -> RangeOK(e)
      [] e.op = "idt_load" -> /\ e.k = "ok" /\ Len(e.instrs) = 1 /\ e.instrs[1].m = "lidt"
                              /\ e.instrs[1].c = e.table /\ e.instrs[1].b = W(4095)
      [] OTHER -> FALSE

Init == l = 1 /\ bad = 0 /\ gates = [v \in 0 .. 255 |-> Missing]
Miss == PrintT(<<"MISMATCH", l>>)
Next ==
    /\ l <= Len(Rec) /\ l' = l + 1
    /\ LET e == Rec[l] IN
       IF e.op \in {"idt_set", "idt_opt"}
       THEN LET r == IF e.op = "idt_set" THEN SetStep(e) ELSE OptStep(e) IN
            IF r.ok THEN gates' = [gates EXCEPT ![r.v] = r.g] /\ bad' = bad
            ELSE Miss /\ bad' = bad + 1 /\ UNCHANGED gates
       ELSE IF e.op = "idt_dump" /\ e.kind = "reset"
       THEN /\ gates' = [v \in 0 .. 255 |-> Missing]
            /\ bad' = IF Pure(e) THEN bad ELSE IF Miss THEN bad + 1 ELSE bad
       ELSE /\ bad' = IF Pure(e) THEN bad ELSE IF Miss THEN bad + 1 ELSE bad
            /\ UNCHANGED gates
Spec == Init /\ [][Next]_<<l, bad, gates>>
Consumed == TLCGet("stats").diameter = Len(Rec) + 1
Post == IF Consumed THEN PrintT(<<"CONSUMED", Len(Rec)>>)
        ELSE PrintT(<<"STUCK", TLCGet("stats").diameter>>) /\ FALSE
=============================================================================
