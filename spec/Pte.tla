--------------------------------- MODULE Pte ---------------------------------
(***************************************************************************)
(* Page-table entries and tables (C08): an entry is one word holding a     *)
(* page-aligned physical address in bits OB..PB-1 and flags in the         *)
(* remaining bits (0..OB-1 and PB..WB-1), independently of each other.     *)
(* A table is 2^IB entries of 8 bytes, little-endian, in index order.      *)
(***************************************************************************)
EXTENDS Addr

AddrFieldP == MaskW(OB, PB)
FlagFieldP == NotW(AddrFieldP)
PresentBit == 0

ENew == ZeroW
ESetAddr(raw, a, F) == IF LowZero(a, OB) /\ PhysValid(a) THEN Ok(OrW(a, F)) ELSE Panic
ESetFlags(raw, F) == Ok(OrW(AndW(raw, AddrFieldP), F))
ESetUnused(raw) == Ok(ZeroW)

EAddr(raw) == AndW(raw, AddrFieldP)
EFlags(raw) == AndW(raw, FlagFieldP)
EIsUnused(raw) == raw = ZeroW
EFrame(raw) == IF Bit(raw, PresentBit) = 1 THEN Ok(EAddr(raw)) ELSE Err

(* bytes of a word, little-endian (real width only: 2 bytes per 16-bit limb) *)
BytesLE(w) == << w[1] % 256, w[1] \div 256, w[2] % 256, w[2] \div 256,
                 w[3] % 256, w[3] \div 256, w[4] % 256, w[4] \div 256 >>
=============================================================================
