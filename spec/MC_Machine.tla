------------------------------ MODULE MC_Machine ------------------------------
(***************************************************************************)
(* Design check of Machine.tla: the delivery algorithm on structures built *)
(* with the specification's own encoders (Idt!Encode, hand-written GDT     *)
(* descriptors from the manuals) returns exactly the gate's fields, and    *)
(* each architectural fault condition yields its fault.  All cases are     *)
(* enumerated by TLC as assumptions over small domains.                    *)
(***************************************************************************)
EXTENDS Machine, Integers

VARIABLE x

KCode64 == << 65535, 0, 39680, 175 >>      \* 0x00af9b000000ffff
KData   == << 65535, 0, 37632, 207 >>      \* 0x00cf93000000ffff
UCode64 == << 65535, 0, 64256, 175 >>      \* 0x00affb000000ffff
UData   == << 65535, 0, 62208, 207 >>      \* 0x00cff3000000ffff
KCode32 == << 65535, 0, 39680, 207 >>      \* 0x00cf9b000000ffff
KCodeNP == << 65535, 0, 6912, 175 >>       \* kernel 64-bit code, present bit clear

TssBase == << 4096, 32768, 65535, 65535 >> \* 0xffff_ffff_8000_1000
TssLo == OrW(OrW(W(103), Shl(AndW(TssBase, LowMask(24)), 16)),
             OrW(Shl(W(137), 40), Shl(AndW(Shr(TssBase, 24), LowMask(8)), 56)))   \* type 9, present
TssHi == Shr(TssBase, 32)

G == << ZeroW, KCode64, KData, UData, UCode64, TssLo, TssHi, KCode32, KCodeNP >>
GLimit == 8 * Len(G) - 1
KCS == 8   KDS == 16   UCS == 35   TSel == 40   K32 == 56   KNP == 64

Stack(n) == << 4096 * n, 0, 36864, 65535 >>              \* 0xffff_9000_0000_n000
ByteOf(w, k) == (w[(k \div 2) + 1] \div (IF k % 2 = 0 THEN 1 ELSE 256)) % 256
TssBytes == [ b \in 1 .. 104 |->
               LET off == b - 1 IN
               IF off >= 4 /\ off < 28 THEN ByteOf(Stack(8 + (off - 4) \div 8), (off - 4) % 8)
               ELSE IF off >= 36 /\ off < 92 THEN ByteOf(Stack(1 + (off - 36) \div 8), (off - 36) % 8)
               ELSE IF off = 102 THEN 104 ELSE 0 ]

Gate(p, a, cs, ist, ty, dpl) == [present |-> p, addr |-> a, cs |-> cs, ist |-> ist, type |-> ty, dpl |-> dpl]
IdtWith(v, g) == [ i \in 1 .. 512 |-> IF i = 2 * v + 1 THEN Encode(g)[1] ELSE IF i = 2 * v + 2 THEN Encode(g)[2]
                                       ELSE Encode(Missing)[2 - (i % 2)] ]
Rsp0 == << 65520, 65535, 32767, 0 >>
Handler == << 4660, 22136, 65535, 65535 >>
D(idt, v, soft, cpl) == Deliver(idt, 4095, G, GLimit, TssBytes, 103, v, soft, cpl, Rsp0, 1)

Vs == {0, 3, 14, 32, 255}

ASSUME TrOK == LET t == LoadTr(G, GLimit, TSel) IN t.k = "ok" /\ t.base = TssBase /\ t.limit = 103
ASSUME TrFaults ==
    /\ LoadTr(G, GLimit, 0).k = "GP" /\ LoadTr(G, GLimit, KCS).k = "GP"          \* null, not a TSS
    /\ LoadTr(G, GLimit, TSel + 4).k = "GP"                                        \* LDT selector
    /\ LoadTr(G, 8 * 6 - 1, TSel).k = "GP"                                         \* upper half beyond the limit
ASSUME TssFields == /\ \A n \in 1 .. 7 : TssIst(TssBytes, n) = Stack(n)
                    /\ \A n \in 0 .. 2 : TssRsp(TssBytes, n) = Stack(8 + n)
                    /\ TssIoMapBase(TssBytes) = 104
ASSUME DeliverOK ==
    \A v \in Vs : \A ist \in {0, 1, 7} : \A ty \in {InterruptGate, TrapGate} : \A dpl \in {0, 3} :
        LET idt == IdtWith(v, Gate(1, Handler, KCS, ist, ty, dpl))
            r0 == D(idt, v, FALSE, 0)
            r3 == D(idt, v, FALSE, 3)
            s3 == D(idt, v, TRUE, 3)
        IN /\ r0.k = "ok" /\ r0.rip = Handler /\ r0.cs = KCS
           /\ r0.rsp = (IF ist = 0 THEN Rsp0 ELSE Stack(ist)) /\ r0.ifl = (IF ty = InterruptGate THEN 0 ELSE 1)
           /\ r3.k = "ok" /\ r3.cs = KCS /\ r3.rsp = (IF ist = 0 THEN Stack(8) ELSE Stack(ist))
           /\ s3.k = (IF dpl = 3 THEN "ok" ELSE "GP")
           /\ \A u \in Vs \ {v} : D(idt, u, FALSE, 0).k = "NP"                     \* untouched gates
ASSUME DeliverFaults ==
    \A v \in Vs :
        /\ D(IdtWith(v, Gate(0, Handler, KCS, 0, InterruptGate, 0)), v, FALSE, 0).k = "NP"
        /\ D(IdtWith(v, Gate(1, Handler, KCS, 0, 12, 0)), v, FALSE, 0).k = "GP"          \* call gate type
        /\ D(IdtWith(v, Gate(1, Handler, 0, 0, InterruptGate, 0)), v, FALSE, 0).k = "GP" \* null selector
        /\ D(IdtWith(v, Gate(1, Handler, KDS, 0, InterruptGate, 0)), v, FALSE, 0).k = "GP" \* data segment
        /\ D(IdtWith(v, Gate(1, Handler, K32, 0, InterruptGate, 0)), v, FALSE, 0).k = "GP" \* not a 64-bit code segment
        /\ D(IdtWith(v, Gate(1, Handler, KNP, 0, InterruptGate, 0)), v, FALSE, 0).k = "NP" \* segment not present
        /\ D(IdtWith(v, Gate(1, Handler, UCS, 0, InterruptGate, 0)), v, FALSE, 0).k = "GP" \* DPL 3 code from CPL 0
        /\ D(IdtWith(v, Gate(1, Handler, 72, 0, InterruptGate, 0)), v, FALSE, 0).k = "GP"  \* beyond the GDT limit
        /\ Deliver(IdtWith(v, Gate(1, Handler, KCS, 0, InterruptGate, 0)), 16 * v + 14, G, GLimit, TssBytes, 103,
                   v, FALSE, 0, Rsp0, 1).k = "GP"                                         \* beyond the IDT limit

Init == x = 0 /\ gates = << >> /\ tab = << >> /\ max = 0
Next == x' = x /\ UNCHANGED <<gates, tab, max>>
Spec == Init /\ [][Next]_<<x, gates, tab, max>>
=============================================================================
