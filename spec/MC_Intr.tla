------------------------------- MODULE MC_Intr -------------------------------
(***************************************************************************)
(* Design check for C17: the interrupt flag under nested                   *)
(* `without_interrupts` calls.                                             *)
(*                                                                         *)
(* The specification models the documented algorithm (remember whether     *)
(* interrupts were enabled; disable them if so; run the closure; re-enable *)
(* them if they had been enabled) as separate steps, and bodies as         *)
(* arbitrary sequences of enable / disable / nested calls that leave the   *)
(* flag as they found it (the quantifier of C17).  TLC explores every      *)
(* program up to depth MaxDepth and every interleaving of statements and   *)
(* checks that at each Exit the flag equals its value at the matching      *)
(* Enter, and that every body starts with the flag clear.                  *)
(***************************************************************************)
EXTENDS Naturals, Sequences

CONSTANTS MaxDepth, MaxSteps

VARIABLES ifl,      \* interrupt flag
          stack,    \* one frame per active without_interrupts call
          steps,
          okExit,   \* history: every Exit so far restored the flag
          okBody    \* history: every body started with IF clear

vars == <<ifl, stack, steps, okExit, okBody>>

(* frame: saved = IF at Enter; pc in {"saved", "body", "done"}; en = depth of enable(); ...; disable() brackets *)
Init == ifl \in {0, 1} /\ stack = <<>> /\ steps = 0 /\ okExit = TRUE /\ okBody = TRUE

Top == stack[Len(stack)]
SetTop(f) == [stack EXCEPT ![Len(stack)] = f]

(* statements available to the program at the current point *)
InBodyClear == stack # <<>> /\ Top.pc = "body" /\ Top.en = 0   \* inside a body, flag as the body found it

Enter ==   \* call without_interrupts: read the flag
    /\ Len(stack) < MaxDepth
    /\ (IF stack = <<>> THEN TRUE ELSE Top.pc = "body")
    /\ stack' = Append(stack, [saved |-> ifl, pc |-> "saved", en |-> 0])
    /\ UNCHANGED <<ifl, okExit, okBody>>
DisableIfSaved ==   \* if interrupts were enabled, disable them; then the closure starts
    /\ stack # <<>> /\ Top.pc = "saved"
    /\ ifl' = IF Top.saved = 1 THEN 0 ELSE ifl
    /\ stack' = SetTop([Top EXCEPT !.pc = "body"])
    /\ okBody' = (okBody /\ ifl' = 0)
    /\ UNCHANGED okExit
BodyDisable ==      \* a body may call disable() at any time
    /\ stack # <<>> /\ Top.pc = "body"
    /\ ifl' = 0
    /\ stack' = SetTop([Top EXCEPT !.en = IF @ > 0 THEN @ - 1 ELSE 0])
    /\ UNCHANGED <<okExit, okBody>>
BodyEnable ==       \* ... or enable(), provided it disables again before it returns
    /\ stack # <<>> /\ Top.pc = "body"
    /\ ifl' = 1
    /\ stack' = SetTop([Top EXCEPT !.en = 1])
    /\ UNCHANGED <<okExit, okBody>>
BodyReturn ==       \* the closure returns, having left the flag as it found it
    /\ stack # <<>> /\ Top.pc = "body" /\ Top.en = 0 /\ ifl = 0
    /\ stack' = SetTop([Top EXCEPT !.pc = "done"])
    /\ UNCHANGED <<ifl, okExit, okBody>>
EnableIfSaved ==    \* re-enable interrupts if they were previously enabled; return
    /\ stack # <<>> /\ Top.pc = "done"
    /\ ifl' = IF Top.saved = 1 THEN 1 ELSE ifl
    /\ okExit' = (okExit /\ ifl' = Top.saved)
    /\ stack' = SubSeq(stack, 1, Len(stack) - 1)
    /\ UNCHANGED okBody
TopEnable == stack = <<>> /\ ifl' = 1 /\ UNCHANGED <<stack, okExit, okBody>>
TopDisable == stack = <<>> /\ ifl' = 0 /\ UNCHANGED <<stack, okExit, okBody>>

Next == /\ steps < MaxSteps /\ steps' = steps + 1
        /\ (Enter \/ DisableIfSaved \/ BodyDisable \/ BodyEnable \/ BodyReturn \/ EnableIfSaved
            \/ TopEnable \/ TopDisable)

Spec == Init /\ [][Next]_vars

Restores == okExit          \* C17: the flag after the call equals the flag before it
BodyClear == okBody         \* C17: the closure runs with the flag clear
Inv == Restores /\ BodyClear
=============================================================================
