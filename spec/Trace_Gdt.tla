------------------------------ MODULE Trace_Gdt ------------------------------
(***************************************************************************)
(* Trace validation for the GDT (C14) and for descriptor / TSS encodings   *)
(* (C15).  gdt_reset starts a behaviour; every append is replayed on the   *)
(* state machine of Gdt.tla and the logged tail of entries(), the selector *)
(* and limit() must agree; gdt_dump compares the complete table.           *)
(***************************************************************************)
EXTENDS Gdt, Integers, Json, IOUtils

Rec == ndJsonDeserialize(IOEnv.TRACE)
VARIABLES l, bad, skip

TailFrom(t, from) == SubSeq(t, from + 1, Len(t))          \* entries from 0-based index `from`

AppendStep(e) ==
    LET r == AppendSem(tab, max, [sys |-> e.sys = 1, lo |-> e.lo, hi |-> e.hi])
    IN [ok |-> /\ e.k = r.k
               /\ (r.k = "ok" => e.sel = r.sel)
               /\ e.len = Len(r.tab)
               /\ e.tail_from <= Len(r.tab) /\ e.tail = TailFrom(r.tab, e.tail_from)
               /\ e.limit = Limit(r.tab),
        tab |-> r.tab]

Pure(e) ==
    CASE e.op = "gdt_from_raw" ->
            LET r == FromRawSem(e.slice, e.max)
            IN e.k = r.k /\ (r.k = "ok" => (e.entries = r.tab /\ e.limit = Limit(r.tab)))
      [] e.op = "tss_desc" -> e.k = "sys" /\ TssDescriptorOK(e.ptr, e.lo, e.hi)
      [] e.op = "preset" -> e.k = "user" /\ PresetOK(e.name, e.lo) /\ e.dpl = Dpl(e.lo)
      [] e.op = "desc_dpl" -> e.dpl = Dpl(e.lo)
      [] e.op = "tss_layout" ->                     \* SDM vol. 3 fig. 8-11: RSP0-2 @ 4, IST1-7 @ 0x24, I/O map base @ 0x66
            /\ e.size = 104 /\ e.pst = 4 /\ e.ist = 36 /\ e.iomap = 102
            /\ e.iomap_init = 104 /\ e.default_iomap = 104 /\ e.zeroed = 1
      [] e.op = "tss_stacks" ->                     \* IST n (1..7) at 0x24 + 8(n-1), RSP n (0..2) at 4 + 8n
            /\ e.ist = [i \in 1 .. 7 |-> Add(<<0, 0, 4369, 0>>, W(4096 * (i - 1))).v]
            /\ e.pst = [i \in 1 .. 3 |-> Add(<<0, 0, 8738, 0>>, W(4096 * (i - 1))).v]
      [] e.op = "gdt_tss" ->                        \* the selector returned for a TSS descriptor makes ltr load that TSS
            LET i == e.ts \div 8 IN
            /\ e.ts >= 0 /\ e.ts % 8 = 0                               \* GDT, RPL 0
            /\ i + 2 <= Len(e.entries)
            /\ TssDescriptorOK(e.tss, e.entries[i + 1], e.entries[i + 2])
            /\ Len(e.instrs) = 1 /\ e.instrs[1].m = "ltr" /\ e.instrs[1].a = W(e.ts)
            \* code/data selectors index descriptors of the kind and privilege level they were made from
            /\ PresetOK("kernel_code64", e.entries[e.cs \div 8 + 1]) /\ e.cs % 8 = 0
            /\ PresetOK("kernel_data", e.entries[e.ds \div 8 + 1]) /\ e.ds % 8 = 0
            /\ PresetOK("user_code64", e.entries[e.ucs \div 8 + 1]) /\ e.ucs % 8 = 3
      [] e.op = "gdt_default" -> e.entries = << ZeroW >> /\ e.limit = 7   \* Default = empty table
      [] e.op = "dtp_layout" ->                     \* 16-bit limit, then 64-bit base, 10 bytes
            /\ e.size = 10 /\ e.limit_off = 0 /\ e.base_off = 2
            /\ e.bytes = << 205, 171, 102, 85, 68, 51, 34, 17, 0, 0 >>
      [] OTHER -> FALSE

StatefulOps == {"gdt_append", "gdt_dump", "gdt_load"}

Init == l = 1 /\ bad = 0 /\ skip = TRUE /\ tab = << ZeroW >> /\ max = 1
Miss == PrintT(<<"MISMATCH", l>>)
Next ==
    /\ l <= Len(Rec) /\ l' = l + 1
    /\ LET e == Rec[l] IN
       IF e.op = "gdt_reset"
       THEN /\ max' = e.max /\ tab' = << ZeroW >> /\ skip' = FALSE
            /\ bad' = IF e.entries = << ZeroW >> /\ e.limit = 7 THEN bad ELSE IF Miss THEN bad + 1 ELSE bad
       ELSE IF e.op \in StatefulOps
       THEN IF skip THEN UNCHANGED <<tab, max, bad, skip>>
            ELSE IF e.op = "gdt_append"
                 THEN LET r == AppendStep(e) IN
                      IF r.ok THEN tab' = r.tab /\ UNCHANGED <<max, bad, skip>>
                      ELSE Miss /\ bad' = bad + 1 /\ skip' = TRUE /\ UNCHANGED <<tab, max>>
                 ELSE LET ok == IF e.op = "gdt_dump" THEN e.entries = tab /\ e.limit = Limit(tab)
                                ELSE /\ e.k = "ok" /\ Len(e.instrs) = 1 /\ e.instrs[1].m = "lgdt"
                                     /\ e.instrs[1].c = e.table            \* base = the table's own address
                                     /\ e.instrs[1].b = W(Limit(tab))      \* limit = 8 * slots - 1
                                     /\ e.limit = Limit(tab)
                      IN /\ bad' = IF ok THEN bad ELSE IF Miss THEN bad + 1 ELSE bad
                         /\ UNCHANGED <<tab, max, skip>>
       ELSE /\ bad' = IF Pure(e) THEN bad ELSE IF Miss THEN bad + 1 ELSE bad
            /\ UNCHANGED <<tab, max, skip>>

Spec == Init /\ [][Next]_<<l, bad, skip, tab, max>>
Consumed == TLCGet("stats").diameter = Len(Rec) + 1
Post == IF Consumed THEN PrintT(<<"CONSUMED", Len(Rec)>>)
        ELSE PrintT(<<"STUCK", TLCGet("stats").diameter>>) /\ FALSE
=============================================================================
