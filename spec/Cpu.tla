--------------------------------- MODULE Cpu ---------------------------------
(***************************************************************************)
(* Architectural semantics of the privileged instructions the crate wraps, *)
(* written from the manuals (Intel SDM vol. 2/3, AMD APM vol. 2/3): the    *)
(* interrupt flag, I/O ports, TLB invalidation requests, and the register  *)
(* file (control, debug, model-specific registers, descriptor-table        *)
(* registers).  Used by MC_Intr (design check) and Trace_Cpu (validation   *)
(* of instruction sequences trapped while the real wrappers run).          *)
(***************************************************************************)
EXTENDS Addr, FiniteSets, TLC

-----------------------------------------------------------------------------
(* interrupt flag: effect of an instruction sequence on IF *)

IfEffect(m, ifl) == CASE m = "cli" -> 0 [] m = "sti" -> 1 [] OTHER -> ifl
RECURSIVE IfAfter(_, _, _)
IfAfter(ifl, ins, k) == IF k > Len(ins) THEN ifl ELSE IfAfter(IfEffect(ins[k].m, ifl), ins, k + 1)
OnlyMnemonics(ins, S) == \A k \in 1 .. Len(ins) : ins[k].m \in S

-----------------------------------------------------------------------------
(* INVPCID descriptor (SDM vol. 2 INVPCID): bits 0..11 PCID, 12..63 reserved (0), 64..127 address *)
InvpcidOK(kind, pcid, addr, ins) ==
    /\ Len(ins) = 1 /\ ins[1].m = "invpcid"
    /\ ins[1].a = W(kind)
    /\ ins[1].b = (IF kind \in {0, 1} THEN W(pcid) ELSE ZeroW)
    /\ ins[1].c = (IF kind = 0 THEN addr ELSE ZeroW)

-----------------------------------------------------------------------------
(* INVLPGB (AMD APM vol. 3):  rAX: bit 0 VA valid, 1 PCID valid, 2 ASID valid, 3 include     *)
(* global, 4 final translation only, 5 include nested; bits 12..63 VA.  ECX: bits 0..15 =    *)
(* number of ADDITIONAL pages (the request covers count + 1 pages), bit 31 = 2 MiB stride.   *)
(* EDX: bits 0..15 ASID, bits 16..27 PCID.                                                   *)
DecodeInvlpgb(i) ==
    [ vaValid |-> Bit(i.a, 0), pcidValid |-> Bit(i.a, 1), asidValid |-> Bit(i.a, 2),
      global |-> Bit(i.a, 3), final |-> Bit(i.a, 4), nested |-> Bit(i.a, 5),
      va |-> AndW(i.a, MaskW(OB, WB)),
      count |-> Field(i.b, 0, 16), stride |-> Bit(i.b, 31),
      asid |-> Field(i.c, 0, 16), pcid |-> Field(i.c, 16, 28),
      reservedOK |-> /\ Field(i.a, 6, 12) = 0
                     /\ Field(i.b, 16, 31) = 0 /\ Shr(i.b, 32) = ZeroW
                     /\ Field(i.c, 28, 32) = 0 /\ Shr(i.c, 32) = ZeroW ]

(* position space: canonical addresses as one contiguous sequence (Addr!Pos); a byte count n *)
PagesBytes(n, s) == Shl(W(n), SizeBits(s))

(* a request stays within one canonical half: first and last covered page are canonical and
   in the same half *)
NoGapCrossing(d, s) ==
    LET last == Add(d.va, PagesBytes(d.count, s))
    IN /\ Canonical(d.va) /\ last.c = 0 /\ Canonical(last.v) /\ SameHalf(d.va, last.v)

(* requests are issued in ascending order and together cover [start, end): each starts at or
   before the first page not yet covered *)
RECURSIVE Covers(_, _, _, _, _)
Covers(ds, k, cur, endp, s) ==      \* cur, endp: positions (words < 2^VB)
    IF k > Len(ds) THEN Le(endp, cur)
    ELSE LET d == ds[k]
             vp == Pos(d.va)
             after == Add(vp, PagesBytes(d.count + 1, s)).v
         IN /\ Le(vp, cur)
            /\ Covers(ds, k + 1, Max(cur, after), endp, s)

(* the ASID the requests must carry: the one given, unless the setter refused it (>= number of ASIDs) *)
AsidSetterOK(e) == e.asid >= 0 => e.asid_ok = (IF e.asid < e.nasid THEN 1 ELSE 0)
EffAsid(e) == IF e.asid >= 0 /\ e.asid < e.nasid THEN e.asid ELSE 0 - 1

(* a builder without a page range: exactly one request, without an address *)
BroadcastAllOK(e, ins) ==
    /\ e.k = "ok" /\ AsidSetterOK(e)
    /\ Len(ins) = 1 /\ ins[1].m = "invlpgb"
    /\ LET d == DecodeInvlpgb(ins[1])
           a == EffAsid(e) IN
       /\ d.reservedOK /\ d.vaValid = 0 /\ d.va = ZeroW /\ d.count = 0 /\ d.stride = 0
       /\ d.pcidValid = (IF e.pcid >= 0 THEN 1 ELSE 0) /\ d.pcid = (IF e.pcid >= 0 THEN e.pcid ELSE 0)
       /\ d.asidValid = (IF a >= 0 THEN 1 ELSE 0) /\ d.asid = (IF a >= 0 THEN a ELSE 0)
       /\ d.global = e.global /\ d.final = e.final /\ d.nested = e.nested

BroadcastOK(e, ins) ==
    LET ds == [k \in 1 .. Len(ins) |-> DecodeInvlpgb(ins[k])]
        empty == ~Lt(e.start, e.end)
    IN /\ e.k = "ok" /\ AsidSetterOK(e)
       /\ OnlyMnemonics(ins, {"invlpgb"})
       /\ \A k \in 1 .. Len(ins) :
            LET d == ds[k] IN
            /\ d.reservedOK
            /\ d.vaValid = 1
            /\ d.stride = e.s                                     \* 2 MiB stride for 2 MiB pages
            /\ d.count <= e.count_max /\ d.count <= 65535          \* per-request maximum
            /\ d.pcidValid = (IF e.pcid >= 0 THEN 1 ELSE 0)
            /\ (e.pcid >= 0 => d.pcid = e.pcid)
            /\ d.asidValid = (IF EffAsid(e) >= 0 THEN 1 ELSE 0)
            /\ (EffAsid(e) >= 0 => d.asid = e.asid)
            /\ d.global = e.global /\ d.final = e.final /\ d.nested = e.nested
            /\ LowZero(d.va, SizeBits(e.s))
            /\ NoGapCrossing(d, e.s)
       /\ (empty \/ Covers(ds, 1, Pos(e.start), IF e.end = UpperStart /\ Bit(e.start, VB - 1) = 0
                                                 THEN PowW(VB - 1) ELSE Pos(e.end), e.s))

-----------------------------------------------------------------------------
(* register wrappers (C16): value a typed write / update must store, given the previous     *)
(* content `pre`, the mask `m` of bits the type models, and the arguments                    *)
Modelled(x, m) == AndW(x, m)
Unmodelled(x, m) == AndW(x, NotW(m))
TypedWriteVal(pre, m, f) == OrW(Unmodelled(pre, m), f)
UpdateVal(pre, m, st, cl) == OrW(Unmodelled(pre, m), AndW(OrW(Modelled(pre, m), st), NotW(cl)))
=============================================================================
