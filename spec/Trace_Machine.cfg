CONSTANTS
  LB = 16
  VB = 48
  PB = 52
  OB = 12
  IB = 9
SPECIFICATION Spec
POSTCONDITION Post
CHECK_DEADLOCK FALSE
