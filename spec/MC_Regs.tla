------------------------------- MODULE MC_Regs -------------------------------
(***************************************************************************)
(* Design check for C16 at scaled register width (8-bit words): for EVERY  *)
(* previous register content, EVERY mask of modelled bits and EVERY        *)
(* argument, the values Cpu.tla prescribes for typed writes and updates    *)
(* satisfy the property: the given fields are stored, every unmodelled bit *)
(* is preserved, the next typed read returns what was written, and update  *)
(* equals read-modify-write.                                               *)
(***************************************************************************)
EXTENDS Cpu

VARIABLES pre, m, x

Masks == { W(0), W(255), W(15), W(165), W(60), W(129), W(2) }
Init == pre \in WordSet /\ m \in Masks /\ x = ZeroW
Next == x = ZeroW /\ x' \in WordSet /\ UNCHANGED <<pre, m>>
Spec == Init /\ [][Next]_<<pre, m, x>>

f == Modelled(x, m)                    \* an argument of the typed write: any subset of the modelled bits
TypedRead(v) == Modelled(v, m)

Inv ==
    LET w == TypedWriteVal(pre, m, f)
        st == Modelled(x, m)
        cl == Modelled(NotW(x), m)
        u == UpdateVal(pre, m, st, Modelled(pre, m))   \* set `st`, clear everything that was set before
    IN /\ TypedRead(w) = f                                         \* written fields are read back
       /\ Unmodelled(w, m) = Unmodelled(pre, m)                     \* nothing else is lost
       /\ UpdateVal(pre, m, ZeroW, ZeroW) = pre                     \* identity update changes nothing
       /\ UpdateVal(pre, m, st, cl) = TypedWriteVal(pre, m, AndW(OrW(TypedRead(pre), st), NotW(cl)))
       /\ Unmodelled(u, m) = Unmodelled(pre, m)
=============================================================================
