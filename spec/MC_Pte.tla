------------------------------- MODULE MC_Pte -------------------------------
(***************************************************************************)
(* Design check for C08 at scaled width: the entry as a state machine over *)
(* ALL aligned addresses x ALL flag sets x all sequences of                *)
(* set_addr / set_flags / set_unused; invariants: address and flags are    *)
(* independent, reading returns what was stored, unused <=> all zero,      *)
(* frame <=> present.                                                      *)
(***************************************************************************)
EXTENDS Pte

VARIABLES raw,      \* the entry
          gaddr,    \* ghost: address last stored (ZeroW after set_unused / new)
          gflags    \* ghost: flags last stored

AlignedPhys == { w \in WordSet : LowZero(w, OB) /\ PhysValid(w) }
FlagSets == { w \in WordSet : AndW(w, AddrFieldP) = ZeroW }

Init == raw = ENew /\ gaddr = ZeroW /\ gflags = ZeroW
SetAddr == \E a \in AlignedPhys : \E F \in FlagSets :
              raw' = ESetAddr(raw, a, F).v /\ gaddr' = a /\ gflags' = F
SetFlags == \E F \in FlagSets : raw' = ESetFlags(raw, F).v /\ gflags' = F /\ UNCHANGED gaddr
SetUnused == raw' = ESetUnused(raw).v /\ gaddr' = ZeroW /\ gflags' = ZeroW
Next == SetAddr \/ SetFlags \/ SetUnused
Spec == Init /\ [][Next]_<<raw, gaddr, gflags>>

Inv == /\ EAddr(raw) = gaddr /\ EFlags(raw) = gflags            \* stored exactly, independently
       /\ (EIsUnused(raw) <=> (gaddr = ZeroW /\ gflags = ZeroW))
       /\ (EFrame(raw).k = "ok" <=> Bit(gflags, PresentBit) = 1)
       /\ (EFrame(raw).k = "ok" => EFrame(raw).v = gaddr)
       /\ PhysValid(EAddr(raw)) /\ LowZero(EAddr(raw), OB)
RejectsUnaligned == \A a \in WordSet : (ESetAddr(ZeroW, a, ZeroW).k = "ok") <=> (a \in AlignedPhys)
ASSUME RejectsUnaligned
=============================================================================
