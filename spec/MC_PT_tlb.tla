----------------------------- MODULE MC_PT_tlb -----------------------------
(***************************************************************************)
(* Design check for C11 (tokens): the page-table state machine of MC_PT    *)
(* composed with an MMU that may cache any present translation at any time *)
(* (TLB fill) and with the flush tokens the calls return.                  *)
(*                                                                         *)
(*   successful map / unmap / update_flags  -> token naming the page       *)
(*   successful set_flags_pK_entry          -> flush-all token             *)
(*   Flush(token)  = INVLPG of the page's start address: drops every       *)
(*                   cached translation of a page containing that address  *)
(*   FlushAll      = reload of CR3: drops every (non-global) translation   *)
(*                                                                         *)
(* Invariant: a cached translation that no longer agrees with the tables   *)
(* is always covered by a token that has been issued and not yet flushed - *)
(* i.e. flushing the returned tokens is sufficient, and each token names   *)
(* exactly the page whose translation changed.  One TLB entry suffices: a  *)
(* violation needs only one stale entry.                                   *)
(***************************************************************************)
EXTENDS MC_PT

VARIABLES tlb,        \* set of cached translations (at most one)
          pending     \* tokens issued and not yet flushed: <<"page", s, page>> or <<"all">>

tvars == <<vars, last, tlb, pending>>

(* what the MMU would cache for a probe address right now *)
Cached(va) == LET w == Walk(ent, root, va) IN
              [page |-> AlignDownV(va, SizeBits(w.size)), size |-> w.size, frame |-> w.frame,
               flags |-> w.flags, rw |-> w.rw, us |-> w.us, nx |-> w.nx]
CurrentAt(t) == LET w == Walk(ent, root, t.page) IN
                w.k = "mapped" /\ Cached(t.page) = t

TInit == Init /\ tlb = {} /\ pending = {}

Call ==     \* a mapper call; its token (if any) becomes pending
    /\ Next
    /\ pending' = pending \cup
         (IF last'.kind = "Ok" /\ last'.op \in {"map", "unmap", "update"} THEN { << "page", last'.s, last'.page >> }
          ELSE IF last'.kind = "Ok" /\ last'.op = "setflags" THEN { << "all" >> }
          ELSE {})
    /\ UNCHANGED tlb
Fill ==     \* the MMU caches a present translation
    /\ tlb = {}
    /\ \E va \in Probes : Walk(ent, root, va).k = "mapped" /\ tlb' = { Cached(va) }
    /\ UNCHANGED <<vars, last, pending>>
Covers(tok, t) ==
    IF tok[1] = "all" THEN TRUE
    ELSE \* INVLPG(tok page start) drops translations of any page containing that address, and the
         \* token's page contains the cached page or is contained in it
         \/ AlignDownV(tok[3], SizeBits(t.size)) = t.page
         \/ AlignDownV(t.page, SizeBits(tok[2])) = tok[3]
FlushTok ==
    \E tok \in pending :
       /\ pending' = IF tok[1] = "all" THEN {} ELSE pending \ {tok}
       /\ tlb' = { t \in tlb : ~Covers(tok, t) }
       /\ UNCHANGED <<vars, last>>
TNext == Call \/ Fill \/ FlushTok
TSpec == TInit /\ [][TNext]_tvars

NoUncoveredStale == \A t \in tlb : CurrentAt(t) \/ \E tok \in pending : Covers(tok, t)
TInv == Inv /\ NoUncoveredStale
TView == <<vars, tlb, pending>>
(* bound on outstanding tokens (more pending tokens only cover more) *)
FewPending == Cardinality(pending) <= 2
=============================================================================
