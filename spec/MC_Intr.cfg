CONSTANTS
  MaxDepth = 4
  MaxSteps = 14
SPECIFICATION Spec
INVARIANT Inv
CHECK_DEADLOCK FALSE
