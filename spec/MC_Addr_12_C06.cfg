CONSTANTS
  BDom <- BLat
  LB = 3
  VB = 10
  PB = 11
  OB = 2
  IB = 2
SPECIFICATION LemmaSpec
INVARIANT InvC06
CHECK_DEADLOCK FALSE
