CONSTANTS
  LB = 16
  VB = 48
  PB = 52
  OB = 12
  IB = 9
  Vecs = {3, 32}
  VecDom <- SmallDom
SPECIFICATION Spec
INVARIANT Inv
PROPERTY OnlyOwnGate
CHECK_DEADLOCK FALSE
