------------------------------- MODULE Machine -------------------------------
(***************************************************************************)
(* The consumer of the structures the crate builds: interrupt delivery in  *)
(* 64-bit mode as the processor performs it over raw memory (SDM vol. 3    *)
(* 6.12.1, 6.14.1-6.14.5, 7.7; APM vol. 2 8.9).  Inputs are what the CPU   *)
(* was given: IDTR / GDTR (base is implicit: the words of the table read   *)
(* from the loaded base), the task register's TSS image, the vector and    *)
(* the interrupted context.  Nothing here knows about the crate's types.   *)
(*                                                                         *)
(*   idt  : sequence of 64-bit words read from IDTR.base (2 per vector)    *)
(*   gdt  : sequence of 64-bit words read from GDTR.base                   *)
(*   tss  : sequence of 104 bytes read from the base in the TSS descriptor *)
(***************************************************************************)
EXTENDS Gdt, Idt

Fault(k, code) == [k |-> k, code |-> code, rip |-> ZeroW, cs |-> 0, rsp |-> ZeroW, ifl |-> 0, ist |-> 0]

(* little-endian 64-bit word at byte offset `off` (0-based) of a byte sequence, as a Word *)
WordAt(bytes, off) == [ j \in 1 .. 4 |-> bytes[off + 2 * j - 1] + 256 * bytes[off + 2 * j] ]
TssIst(tss, n) == WordAt(tss, 36 + 8 * (n - 1))          \* IST n, n in 1..7, at 0x24 + 8(n-1)
TssRsp(tss, n) == WordAt(tss, 4 + 8 * n)                 \* RSP n, n in 0..2, at 4 + 8n
TssIoMapBase(tss) == tss[103] + 256 * tss[104]           \* at 0x66

SelIndex(sel) == sel \div 8
SelTI(sel) == (sel \div 4) % 2
SelRpl(sel) == sel % 4
InTable(sel, limit) == SelIndex(sel) * 8 + 7 <= limit

(* ltr (SDM "LTR"): selector must be global, inside the GDT, an available 64-bit TSS, present; on success the     *)
(* processor marks the descriptor busy in memory (type 9 -> 11), so a second ltr of the same selector faults      *)
LoadTr(gdt, gdtLimit, sel) ==
    IF SelIndex(sel) = 0 \/ SelTI(sel) = 1 THEN [k |-> "GP", base |-> ZeroW, limit |-> 0]
    ELSE IF SelIndex(sel) * 8 + 15 > gdtLimit THEN [k |-> "GP", base |-> ZeroW, limit |-> 0]
    ELSE LET d == DecodeSys(gdt[SelIndex(sel) + 1], gdt[SelIndex(sel) + 2])
         IN IF d.s = 1 \/ d.type # AvailableTss64 \/ d.hiReserved # ZeroW
            THEN [k |-> "GP", base |-> ZeroW, limit |-> 0]
            ELSE IF d.p = 0 THEN [k |-> "NP", base |-> ZeroW, limit |-> 0]
            ELSE [k |-> "ok", base |-> d.base, limit |-> d.limit]

(* Delivery of vector v.  soft: INT n executed at privilege cpl (gate DPL is checked);        *)
(* otherwise an exception / external interrupt.  rsp: stack pointer of the interrupted code.  *)
(* Result: a fault, or the context the handler starts in.                                     *)
Deliver(idt, idtLimit, gdt, gdtLimit, tss, tssLimit, v, soft, cpl, rsp, ifl) ==
    IF 16 * v + 15 > idtLimit THEN Fault("GP", 8 * v + 2)
    ELSE
    LET lo == idt[2 * v + 1]
        hi == idt[2 * v + 2]
        g == Decode(lo, hi)
    IN IF g.type \notin {InterruptGate, TrapGate} \/ Bit(lo, 44) = 1 THEN Fault("GP", 8 * v + 2)
       ELSE IF soft /\ g.dpl < cpl THEN Fault("GP", 8 * v + 2)
       ELSE IF g.present = 0 THEN Fault("NP", 8 * v + 2)
       ELSE IF SelIndex(g.cs) = 0 THEN Fault("GP", 0)
       ELSE IF SelTI(g.cs) = 1 \/ ~InTable(g.cs, gdtLimit) THEN Fault("GP", g.cs - SelRpl(g.cs))
       ELSE
       LET d == DecodeUser(gdt[SelIndex(g.cs) + 1])
           errc == g.cs - SelRpl(g.cs)
       IN IF d.s = 0 \/ d.exec = 0 \/ d.dpl > cpl THEN Fault("GP", errc)
          ELSE IF d.p = 0 THEN Fault("NP", errc)
          ELSE IF ~(d.l = 1 /\ d.db = 0) THEN Fault("GP", errc)         \* must be a 64-bit code segment
          ELSE
          LET newCpl == IF d.ce = 1 THEN cpl ELSE d.dpl                  \* conforming: no change
              sp == IF g.ist > 0 THEN (IF 36 + 8 * g.ist - 1 > tssLimit THEN << >> ELSE TssIst(tss, g.ist))
                    ELSE IF newCpl < cpl THEN (IF 4 + 8 * newCpl + 7 > tssLimit THEN << >> ELSE TssRsp(tss, newCpl))
                    ELSE rsp
          IN IF sp = << >> THEN Fault("TS", 0)
             ELSE IF ~Canonical(sp) THEN Fault("SS", 0)
             ELSE [k |-> "ok", code |-> 0, rip |-> g.addr, cs |-> (g.cs - SelRpl(g.cs)) + newCpl,
                   rsp |-> AlignDownV(sp, 4),                            \* RSP & ~0xF before the frame is pushed
                   ifl |-> IF g.type = InterruptGate THEN 0 ELSE ifl,
                   ist |-> g.ist]
=============================================================================
