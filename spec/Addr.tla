-------------------------------- MODULE Addr --------------------------------
(***************************************************************************)
(* Address algebra of x86_64: canonical virtual addresses, physical        *)
(* addresses, alignment, exact-or-panic arithmetic, stepping over the      *)
(* canonical sequence, page-table indices, pages/frames and their ranges,  *)
(* recursive page-table addresses.  (Properties C03-C07, parts of C20.)    *)
(*                                                                         *)
(* Everything is a pure operator over Word values and is written from the  *)
(* property statements / the architecture, not from src/addr.rs.  The      *)
(* operators are evaluable at every limb width; MC_Addr checks them        *)
(* against *declarative* definitions (sets, cardinalities, CHOOSE) for     *)
(* all inputs at scaled widths, Trace_Addr uses the same text at LB = 16   *)
(* as the oracle for events recorded from the real crate.                  *)
(***************************************************************************)
EXTENDS Word

CONSTANTS VB,      \* virtual-address bits   (48)
          PB,      \* physical-address bits  (52)
          OB,      \* page-offset bits       (12)
          IB       \* bits per table index   (9)      VB = OB + 4*IB

ASSUME VB = OB + 4 * IB /\ VB < WB /\ PB < WB /\ PB > OB + 2 * IB

(* results *)
Ok(v)  == [k |-> "ok",    v |-> v]
Panic  == [k |-> "panic", v |-> ZeroW]
None   == [k |-> "none",  v |-> ZeroW]
Err    == [k |-> "err",   v |-> ZeroW]
Bool(b) == Ok(IF b THEN W(1) ELSE ZeroW)

(* page-size classes: 0 = 4 KiB, 1 = 2 MiB, 2 = 1 GiB *)
SizeClass == 0 .. 2
SizeBits(s) == OB + s * IB
SizeW(s) == PowW(SizeBits(s))

-----------------------------------------------------------------------------
(* validity *)

Canonical(a) == LET top == Shr(a, VB - 1)
                IN top = ZeroW \/ top = LowMask(WB - VB + 1)
SignExt(a)   == IF Bit(a, VB - 1) = 1 THEN OrW(a, MaskW(VB, WB))
                                      ELSE AndW(a, LowMask(VB))
PhysValid(a) == Shr(a, PB) = ZeroW
PhysTrunc(a) == AndW(a, LowMask(PB))

UpperStart == MaskW(VB - 1, WB)          \* first address of the upper half
LowerLast  == LowMask(VB - 1)            \* last address of the lower half
SameHalf(a, b) == Bit(a, VB - 1) = Bit(b, VB - 1)

(* constructors *)
VNew(a)    == IF Canonical(a) THEN Ok(a) ELSE Panic
VTryNew(a) == IF Canonical(a) THEN Ok(a) ELSE Err
VTrunc(a)  == Ok(SignExt(a))
PNew(a)    == IF PhysValid(a) THEN Ok(a) ELSE Panic
PTryNew(a) == IF PhysValid(a) THEN Ok(a) ELSE Err
PTrunc(a)  == Ok(PhysTrunc(a))

-----------------------------------------------------------------------------
(* alignment (C06) *)

AlignDownV(a, k) == AndW(a, MaskW(k, WB))            \* clear the low k bits

AlignDown(a, al) == IF ~IsPow2(al) THEN Panic ELSE Ok(AlignDownV(a, Log2(al)))

AlignUp(a, al) ==
    IF ~IsPow2(al) THEN Panic
    ELSE LET d == AlignDownV(a, Log2(al))
             s == Add(d, al)
         IN IF d = a THEN Ok(a)
            ELSE IF s.c = 1 THEN Panic ELSE Ok(s.v)

(* Virtual addresses: greatest / least *canonical* multiple.  Only          *)
(* alignments up to 2^(VB-1) are constrained by the property.               *)
VAlignConstrained(al) == IsPow2(al) /\ Log2(al) <= VB - 1

VAlignDown(a, al) == AlignDown(a, al)     \* stays canonical for al <= 2^(VB-1)

VAlignUp(a, al) ==
    LET r == AlignUp(a, al)
    IN IF r.k # "ok" THEN r
       ELSE IF Canonical(r.v) THEN r
       ELSE Ok(UpperStart)                \* rounded into the gap: next canonical multiple

PAlignDown(a, al) == AlignDown(a, al)
PAlignUp(a, al) == LET r == AlignUp(a, al)
                   IN IF r.k = "ok" /\ ~PhysValid(r.v) THEN Panic ELSE r

IsAligned(a, al) == IF ~IsPow2(al) THEN Panic ELSE Bool(LowZero(a, Log2(al)))

-----------------------------------------------------------------------------
(* exact-or-panic arithmetic (C07) *)

VAdd(a, n) == LET s == Add(a, n)
              IN IF s.c = 1 \/ ~Canonical(s.v) THEN Panic ELSE Ok(s.v)
VSub(a, n) == LET s == Sub(a, n)
              IN IF s.c = 1 \/ ~Canonical(s.v) THEN Panic ELSE Ok(s.v)
PAdd(a, n) == LET s == Add(a, n)
              IN IF s.c = 1 \/ ~PhysValid(s.v) THEN Panic ELSE Ok(s.v)
PSub(a, n) == LET s == Sub(a, n)
              IN IF s.c = 1 \/ ~PhysValid(s.v) THEN Panic ELSE Ok(s.v)
Diff(a, b) == LET s == Sub(a, b) IN IF s.c = 1 THEN Panic ELSE Ok(s.v)

(* n * 2^k, or overflow *)
MulPow2(n, k) == IF Shr(n, WB - k) # ZeroW THEN None ELSE Ok(Shl(n, k))

(* pages / frames are represented by their start address + size class *)
PageAdd(p, n, s) == LET m == MulPow2(n, SizeBits(s))
                    IN IF m.k # "ok" THEN Panic ELSE VAdd(p, m.v)
PageSub(p, n, s) == LET m == MulPow2(n, SizeBits(s))
                    IN IF m.k # "ok" THEN Panic ELSE VSub(p, m.v)
FrameAdd(p, n, s) == LET m == MulPow2(n, SizeBits(s))
                     IN IF m.k # "ok" THEN Panic ELSE PAdd(p, m.v)
FrameSub(p, n, s) == LET m == MulPow2(n, SizeBits(s))
                     IN IF m.k # "ok" THEN Panic ELSE PSub(p, m.v)
PageDiff(p, q, s) == LET d == Diff(p, q)
                     IN IF d.k # "ok" THEN Panic ELSE Ok(Shr(d.v, SizeBits(s)))

-----------------------------------------------------------------------------
(* stepping over the canonical sequence (C05).  Position of a canonical     *)
(* address in the ascending sequence of all 2^VB canonical addresses is     *)
(* simply its low VB bits; the n-th canonical address is SignExt(n).        *)

Pos(a) == AndW(a, LowMask(VB))
NPos == PowW(VB)                                       \* number of positions

StepFwd(a, n) ==
    IF ~Lt(n, NPos) THEN None
    ELSE LET s == Add(Pos(a), n).v
         IN IF ~Lt(s, NPos) THEN None ELSE Ok(SignExt(s))
StepBack(a, n) ==
    IF Lt(Pos(a), n) THEN None ELSE Ok(SignExt(Sub(Pos(a), n).v))
StepsBetween(a, b) ==
    IF Lt(b, a) THEN None ELSE Ok(Sub(Pos(b), Pos(a)).v)

PageStepFwd(p, n, s) == LET m == MulPow2(n, SizeBits(s))
                        IN IF m.k # "ok" THEN None ELSE StepFwd(p, m.v)
PageStepBack(p, n, s) == LET m == MulPow2(n, SizeBits(s))
                         IN IF m.k # "ok" THEN None ELSE StepBack(p, m.v)
PageStepsBetween(p, q, s) == LET d == StepsBetween(p, q)
                             IN IF d.k # "ok" THEN None ELSE Ok(Shr(d.v, SizeBits(s)))

NIdx == PowW(IB)
IdxStepFwd(i, n) == IF ~Lt(n, NIdx) THEN None
                    ELSE LET s == Add(i, n).v IN IF ~Lt(s, NIdx) THEN None ELSE Ok(s)
IdxStepBack(i, n) == IF Lt(i, n) THEN None ELSE Ok(Sub(i, n).v)
IdxStepsBetween(i, j) == IF Lt(j, i) THEN None ELSE Ok(Sub(j, i).v)

-----------------------------------------------------------------------------
(* indices (C04) *)

Level == 1 .. 4
IndexOf(a, l) == Field(a, OB + (l - 1) * IB, OB + l * IB)
OffsetOf(a)   == Field(a, 0, OB)

(* page of size class s with the given indices (p1 ignored for s >= 1, p2 for s = 2) *)
FromIndices(s, p4, p3, p2, p1) ==
    LET raw == OrW(OrW(Shl(W(p4), OB + 3 * IB), Shl(W(p3), OB + 2 * IB)),
                   OrW(IF s <= 1 THEN Shl(W(p2), OB + IB) ELSE ZeroW,
                       IF s = 0 THEN Shl(W(p1), OB) ELSE ZeroW))
    IN SignExt(raw)

IdxNew(n)   == IF n < 2^IB THEN Ok(W(n)) ELSE Panic
IdxTrunc(n) == Ok(W(n % 2^IB))
OffNew(n)   == IF n < 2^OB THEN Ok(W(n)) ELSE Panic
OffTrunc(n) == Ok(W(n % 2^OB))

NextLower(l)  == IF l > 1 THEN Ok(W(l - 1)) ELSE None
NextHigher(l) == IF l < 4 THEN Ok(W(l + 1)) ELSE None
TableAlign(l) == Ok(PowW(OB + l * IB))
EntryAlign(l) == Ok(PowW(OB + (l - 1) * IB))

-----------------------------------------------------------------------------
(* containment (C06) *)

Containing(a, s) == Ok(AlignDownV(a, SizeBits(s)))
FromStart(a, s)  == IF LowZero(a, SizeBits(s)) THEN Ok(a) ELSE Err

-----------------------------------------------------------------------------
(* ranges (C07): number of items and the i-th item (1-based) *)

RangeLen(st, en, s, incl) ==
    IF (IF incl THEN Lt(en, st) ELSE ~Lt(st, en)) THEN ZeroW
    ELSE LET d == Shr(Sub(en, st).v, SizeBits(s))
         IN IF incl THEN Add(d, W(1)).v ELSE d
RangeItem(st, s, i) == Add(st, Shl(W(i - 1), SizeBits(s))).v
RangeSize(st, en, s, incl) == Shl(RangeLen(st, en, s, incl), SizeBits(s))

-----------------------------------------------------------------------------
(* recursive page-table addresses (C20) *)

RecP3(R, page) == FromIndices(0, R, R, R, IndexOf(page, 4))
RecP2(R, page) == FromIndices(0, R, R, IndexOf(page, 4), IndexOf(page, 3))
RecP1(R, page) == FromIndices(0, R, IndexOf(page, 4), IndexOf(page, 3), IndexOf(page, 2))
=============================================================================
