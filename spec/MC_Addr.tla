------------------------------- MODULE MC_Addr -------------------------------
(***************************************************************************)
(* Design check of Addr.tla at scaled widths (LB = 2: 8-bit words, 6-bit   *)
(* virtual / 7-bit physical addresses; LB = 3: 12/10/11 bits).             *)
(*                                                                         *)
(* (1) Lemmas: for ALL pairs of words (a, b) the algorithmic operators of  *)
(*     Addr.tla (the ones also used as the oracle at 64 bit) agree with    *)
(*     declarative definitions written with naturals, sets, CHOOSE and     *)
(*     cardinalities.  The pair (a, b) is the state; TLC enumerates all of *)
(*     them as initial states and evaluates Lemmas as an invariant.        *)
(* (2) AddrProg: the state machine of "programs composed of the safe       *)
(*     operations that return an address" (C03): from any valid address    *)
(*     pair (va, pa), any operation with any operand; invariant: validity. *)
(***************************************************************************)
EXTENDS Addr, FiniteSets, TLC

VARIABLES a, b,        \* lemma inputs
          va, pa       \* AddrProg state

N(w) == ToNat(w)
TwoWB == 2^WB
AllW == WordSet

-----------------------------------------------------------------------------
(* declarative vocabulary *)

DCanonical(w) == N(w) < 2^(VB - 1) \/ N(w) >= TwoWB - 2^(VB - 1)
CanonSet == { w \in AllW : DCanonical(w) }
PhysSet  == { w \in AllW : N(w) < 2^PB }

(* constant-level tables (TLC evaluates and materialises them once).  Positions are defined
   by counting, the n-th element by filtering the naturals in order; both are written on
   naturals so that their cost is quadratic at worst (12-bit configurations). *)
NatSeq == [ i \in 1 .. TwoWB |-> i - 1 ]
DCanonN(n) == n < 2^(VB - 1) \/ n >= TwoWB - 2^(VB - 1)
IsPageN(n, s) == DCanonN(n) /\ n % 2^SizeBits(s) = 0
CanonSeqN == SelectSeq(NatSeq, LAMBDA n : DCanonN(n))
DPosT == [ n \in 0 .. TwoWB - 1 |-> Cardinality({ c \in 0 .. n - 1 : DCanonN(c) }) ] @@ << >>
DPos(w) == DPosT[N(w)]
NthCanon(n) == W(CanonSeqN[n + 1])
PagesF == [ s \in SizeClass |-> { c \in CanonSet : N(c) % 2^SizeBits(s) = 0 } ]
PagesSeq0 == SelectSeq(NatSeq, LAMBDA n : IsPageN(n, 0))
PagesSeq1 == SelectSeq(NatSeq, LAMBDA n : IsPageN(n, 1))
PagesSeq2 == SelectSeq(NatSeq, LAMBDA n : IsPageN(n, 2))
PPosT0 == [ n \in 0 .. TwoWB - 1 |-> Cardinality({ c \in 0 .. n - 1 : IsPageN(c, 0) }) ] @@ << >>
PPosT1 == [ n \in 0 .. TwoWB - 1 |-> Cardinality({ c \in 0 .. n - 1 : IsPageN(c, 1) }) ] @@ << >>
PPosT2 == [ n \in 0 .. TwoWB - 1 |-> Cardinality({ c \in 0 .. n - 1 : IsPageN(c, 2) }) ] @@ << >>
PPos(s, p) == IF s = 0 THEN PPosT0[N(p)] ELSE IF s = 1 THEN PPosT1[N(p)] ELSE PPosT2[N(p)]
PNth(s, n) == W(IF s = 0 THEN PagesSeq0[n + 1] ELSE IF s = 1 THEN PagesSeq1[n + 1] ELSE PagesSeq2[n + 1])
PCount(s) == IF s = 0 THEN Len(PagesSeq0) ELSE IF s = 1 THEN Len(PagesSeq1) ELSE Len(PagesSeq2)

Pow2Nats == { 2^k : k \in 0 .. WB - 1 }
Multiple(x, m) == x % m = 0

MaxOf(S) == CHOOSE x \in S : \A y \in S : y <= x
MinOf(S) == CHOOSE x \in S : \A y \in S : x <= y

(* exact result or PANIC for a natural-number computation *)
ExactV(n) == IF n >= 0 /\ n < TwoWB /\ DCanonical(W(n)) THEN Ok(W(n)) ELSE Panic
ExactP(n) == IF n >= 0 /\ n < 2^PB THEN Ok(W(n)) ELSE Panic
ExactU(n) == IF n >= 0 /\ n < TwoWB THEN Ok(W(n)) ELSE Panic

-----------------------------------------------------------------------------
(* lemmas over one word *)

L_Canonical == Canonical(a) <=> DCanonical(a)
L_SignExt ==
    /\ SignExt(a) \in CanonSet
    /\ N(SignExt(a)) % 2^VB = N(a) % 2^VB
    /\ (DCanonical(a) => SignExt(a) = a)
    /\ SignExt(SignExt(a)) = SignExt(a)
    /\ SignExt(a) = SignExt(W(N(a) % 2^VB))             \* depends only on the low VB bits
L_Phys ==
    /\ PhysValid(a) <=> a \in PhysSet
    /\ PhysTrunc(a) = W(N(a) % 2^PB)
    /\ PhysTrunc(PhysTrunc(a)) = PhysTrunc(a)
L_Ctors ==
    /\ VNew(a) = (IF a \in CanonSet THEN Ok(a) ELSE Panic)
    /\ VTryNew(a) = (IF a \in CanonSet THEN Ok(a) ELSE Err)
    /\ PNew(a) = (IF a \in PhysSet THEN Ok(a) ELSE Panic)
    /\ PTryNew(a) = (IF a \in PhysSet THEN Ok(a) ELSE Err)
    /\ (a \in CanonSet => VTrunc(a) = VTryNew(a))
    /\ (a \in PhysSet => PTrunc(a) = PTryNew(a))
L_Pos ==
    DCanonical(a) => /\ N(Pos(a)) = DPos(a)
                     /\ SignExt(Pos(a)) = a
                     /\ NthCanon(DPos(a)) = a
L_Index ==
    /\ \A l \in Level : IndexOf(a, l) = (N(a) \div 2^(OB + (l - 1) * IB)) % 2^IB
    /\ OffsetOf(a) = N(a) % 2^OB
    /\ DCanonical(a) =>
         /\ FromIndices(0, IndexOf(a, 4), IndexOf(a, 3), IndexOf(a, 2), IndexOf(a, 1))
              = Containing(a, 0).v
         /\ FromIndices(1, IndexOf(a, 4), IndexOf(a, 3), IndexOf(a, 2), 0) = Containing(a, 1).v
         /\ FromIndices(2, IndexOf(a, 4), IndexOf(a, 3), 0, 0) = Containing(a, 2).v
L_FromIndices ==   \* a encodes an index tuple in its low 4*IB bits
    LET p1 == N(a) % 2^IB
        p2 == (N(a) \div 2^IB) % 2^IB
        p3 == (N(a) \div 2^(2 * IB)) % 2^IB
        p4 == (N(a) \div 2^(3 * IB)) % 2^IB
        Uniq(s, want) ==
            LET S == { c \in CanonSet : /\ N(c) % 2^SizeBits(s) = 0
                                        /\ \A l \in (s + 1) .. 4 : IndexOf(c, l) = want[l] }
            IN S = { FromIndices(s, p4, p3, p2, p1) }
    IN N(a) < 2^(4 * IB) =>
         /\ Uniq(0, <<p1, p2, p3, p4>>)
         /\ Uniq(1, <<p1, p2, p3, p4>>)
         /\ Uniq(2, <<p1, p2, p3, p4>>)
L_Containing ==
    \A s \in SizeClass :
       LET c == Containing(a, s).v
           sz == 2^SizeBits(s)
       IN /\ N(c) % sz = 0 /\ N(c) <= N(a) /\ N(a) - N(c) < sz
          /\ (DCanonical(a) => DCanonical(c))
          /\ (a \in PhysSet => c \in PhysSet)
          /\ FromStart(a, s) = (IF N(a) % sz = 0 THEN Ok(a) ELSE Err)
L_SmallCodecs ==
    LET n == N(a)
    IN /\ IdxNew(n) = (IF n < 2^IB THEN Ok(W(n)) ELSE Panic)
       /\ IdxTrunc(n).v = W(n % 2^IB) /\ OffTrunc(n).v = W(n % 2^OB)
       /\ OffNew(n) = (IF n < 2^OB THEN Ok(W(n)) ELSE Panic)
L_Rec ==   \* recursive addresses: indices of RecPk are R repeated, then the page's upper indices
    (DCanonical(a) /\ N(b) < 2^IB) =>
        LET R == N(b)
            i(l) == IndexOf(a, l)
            idx(w) == << IndexOf(w, 4), IndexOf(w, 3), IndexOf(w, 2), IndexOf(w, 1) >>
        IN /\ idx(RecP3(R, a)) = << R, R, R, i(4) >>
           /\ idx(RecP2(R, a)) = << R, R, i(4), i(3) >>
           /\ idx(RecP1(R, a)) = << R, i(4), i(3), i(2) >>
           /\ DCanonical(RecP3(R, a)) /\ DCanonical(RecP2(R, a)) /\ DCanonical(RecP1(R, a))
           /\ OffsetOf(RecP3(R, a)) = 0 /\ OffsetOf(RecP2(R, a)) = 0 /\ OffsetOf(RecP1(R, a)) = 0

-----------------------------------------------------------------------------
(* lemmas over two words: a = address, b = alignment / offset / count / other address *)

L_Align ==
    LET A == N(b)
        isP == A \in Pow2Nats
        downs == { m \in 0 .. N(a) : Multiple(m, A) }
        ups   == { m \in N(a) .. TwoWB - 1 : Multiple(m, A) }
    IN /\ IsPow2(b) <=> isP
       /\ AlignDown(a, b) = (IF ~isP THEN Panic ELSE Ok(W(MaxOf(downs))))
       /\ AlignUp(a, b) = (IF ~isP THEN Panic
                           ELSE IF ups = {} THEN Panic ELSE Ok(W(MinOf(ups))))
       /\ IsAligned(a, b) = (IF ~isP THEN Panic ELSE Bool(Multiple(N(a), A)))
L_VAlign ==
    LET A == N(b)
        downs == { c \in CanonSet : N(c) <= N(a) /\ Multiple(N(c), A) }
        ups   == { c \in CanonSet : N(c) >= N(a) /\ Multiple(N(c), A) }
        maxc(S) == CHOOSE x \in S : \A y \in S : N(y) <= N(x)
        minc(S) == CHOOSE x \in S : \A y \in S : N(x) <= N(y)
    IN (DCanonical(a) /\ A \in Pow2Nats /\ A <= 2^(VB - 1)) =>
         /\ VAlignConstrained(b)
         /\ VAlignDown(a, b) = Ok(maxc(downs))
         /\ VAlignUp(a, b) = (IF ups = {} THEN Panic ELSE Ok(minc(ups)))
L_PAlign ==
    LET A == N(b)
        ups == { m \in N(a) .. 2^PB - 1 : Multiple(m, A) }
    IN (a \in PhysSet /\ A \in Pow2Nats) =>
         /\ PAlignUp(a, b) = (IF ups = {} THEN Panic ELSE Ok(W(MinOf(ups))))
         /\ PAlignDown(a, b).k = "ok" /\ PAlignDown(a, b).v \in PhysSet
L_Arith ==
    /\ (DCanonical(a) => /\ VAdd(a, b) = ExactV(N(a) + N(b))
                         /\ VSub(a, b) = ExactV(N(a) - N(b)))
    /\ (a \in PhysSet => /\ PAdd(a, b) = ExactP(N(a) + N(b))
                         /\ PSub(a, b) = ExactP(N(a) - N(b)))
    /\ Diff(a, b) = ExactU(N(a) - N(b))
L_PageArith ==
    \A s \in SizeClass :
      LET sz == 2^SizeBits(s)
      IN /\ (DCanonical(a) /\ Multiple(N(a), sz)) =>
              /\ PageAdd(a, b, s) = ExactV(N(a) + N(b) * sz)
              /\ PageSub(a, b, s) = ExactV(N(a) - N(b) * sz)
         /\ (a \in PhysSet /\ Multiple(N(a), sz)) =>
              /\ FrameAdd(a, b, s) = ExactP(N(a) + N(b) * sz)
              /\ FrameSub(a, b, s) = ExactP(N(a) - N(b) * sz)
         /\ (Multiple(N(a), sz) /\ Multiple(N(b), sz)) =>
              PageDiff(a, b, s) = (IF N(a) >= N(b) THEN Ok(W((N(a) - N(b)) \div sz)) ELSE Panic)
L_Step ==
    /\ DCanonical(a) =>
         /\ StepFwd(a, b) = (IF DPos(a) + N(b) < 2^VB THEN Ok(NthCanon(DPos(a) + N(b))) ELSE None)
         /\ StepBack(a, b) = (IF DPos(a) >= N(b) THEN Ok(NthCanon(DPos(a) - N(b))) ELSE None)
         /\ (StepFwd(a, b).k = "ok" => /\ StepBack(StepFwd(a, b).v, b) = Ok(a)
                                       /\ StepsBetween(a, StepFwd(a, b).v) = Ok(b))
         /\ (StepBack(a, b).k = "ok" => StepFwd(StepBack(a, b).v, b) = Ok(a))
    /\ (DCanonical(a) /\ DCanonical(b)) =>
         StepsBetween(a, b) = (IF DPos(b) >= DPos(a) THEN Ok(W(DPos(b) - DPos(a))) ELSE None)
L_PageStep ==
    \A s \in SizeClass :
      LET sz == 2^SizeBits(s)
          ppos(p) == PPos(s, p)
          nth(n) == PNth(s, n)
          isPage(w) == IsPageN(N(w), s)
      IN /\ isPage(a) =>
              /\ PageStepFwd(a, b, s) = (IF ppos(a) + N(b) < PCount(s)
                                         THEN Ok(nth(ppos(a) + N(b))) ELSE None)
              /\ PageStepBack(a, b, s) = (IF ppos(a) >= N(b) THEN Ok(nth(ppos(a) - N(b))) ELSE None)
         /\ (isPage(a) /\ isPage(b)) =>
              PageStepsBetween(a, b, s) = (IF ppos(b) >= ppos(a) THEN Ok(W(ppos(b) - ppos(a))) ELSE None)
L_IdxStep ==
    (N(a) < 2^IB) =>
       /\ IdxStepFwd(a, b) = (IF N(a) + N(b) < 2^IB THEN Ok(W(N(a) + N(b))) ELSE None)
       /\ IdxStepBack(a, b) = (IF N(a) >= N(b) THEN Ok(W(N(a) - N(b))) ELSE None)
       /\ (N(b) < 2^IB => IdxStepsBetween(a, b) = (IF N(b) >= N(a) THEN Ok(W(N(b) - N(a))) ELSE None))
L_Range ==   \* a = start, b = end, both pages of size s in one half (virtual) / both physical frames
    \A s \in SizeClass : \A incl \in BOOLEAN :
      LET sz == 2^SizeBits(s)
          items == { m \in 0 .. TwoWB - 1 : /\ Multiple(m, sz) /\ m >= N(a)
                                            /\ (IF incl THEN m <= N(b) ELSE m < N(b)) }
          len == N(RangeLen(a, b, s, incl))
      IN (Multiple(N(a), sz) /\ Multiple(N(b), sz) /\
          ((DCanonical(a) /\ DCanonical(b) /\ SameHalf(a, b)) \/ (a \in PhysSet /\ b \in PhysSet))) =>
            /\ len = Cardinality(items)
            /\ \A i \in 1 .. len : N(RangeItem(a, s, i)) \in items
            /\ \A i \in 1 .. len - 1 : N(RangeItem(a, s, i)) < N(RangeItem(a, s, i + 1))
            /\ N(RangeSize(a, b, s, incl)) = len * sz

(* lemma groups per property; those that depend only on `a` are evaluated once per a *)
OnlyA(P) == b = ZeroW => P
InvC03 == OnlyA(L_Canonical /\ L_SignExt /\ L_Phys /\ L_Ctors)
InvC04 == OnlyA(L_Index /\ L_FromIndices /\ L_SmallCodecs)
InvC05 == OnlyA(L_Pos) /\ L_Step /\ L_PageStep /\ L_IdxStep
InvC06 == OnlyA(L_Containing) /\ L_Align /\ L_VAlign /\ L_PAlign
InvC07 == L_Arith /\ L_PageArith /\ L_Range
InvC20 == L_Rec
LemmaInv == InvC03 /\ InvC04 /\ InvC05 /\ InvC06 /\ InvC07 /\ InvC20

(* every a is an initial state, every (a, b) a successor: 2^WB initial states whose
   successors are generated and checked in parallel by the workers *)
LemmaInit == a \in AllW /\ b = ZeroW /\ va = ZeroW /\ pa = ZeroW
(* the second operand: all words (8-bit configurations); at 12 bit either none (lemmas over `a`
   alone) or the boundary lattice {2^k + d} u {multiples of 37} u {all-ones - d} *)
LatN == { n \in 0 .. TwoWB - 1 : \/ \E k \in 0 .. WB : \E d \in 0 .. 2 : n = 2^k + d \/ n + d = 2^k
                                 \/ n % 37 = 0 \/ n < 6 }
BAll == AllW
BLat == { W(n) : n \in LatN }
BNone == {}
BDom == BAll
LemmaNext == b = ZeroW /\ b' \in BDom /\ UNCHANGED <<a, va, pa>>
LemmaSpec == LemmaInit /\ [][LemmaNext]_<<a, b, va, pa>>

-----------------------------------------------------------------------------
(* AddrProg: programs of safe operations (C03) *)

Take(r, old) == IF r.k = "ok" THEN r.v ELSE old        \* panics / errors produce no value

ProgInit == va = ZeroW /\ pa = ZeroW /\ a = ZeroW /\ b = ZeroW
(* va and pa evolve independently (no operation mixes virtual and physical values), so the
   two components are explored one at a time: virtual operations while pa = 0, physical
   operations while va = 0.  This is the full reachable set of each component. *)
ProgNextV(x) ==
      \/ va' = Take(VNew(x), va)
      \/ va' = Take(VTryNew(x), va)
      \/ va' = VTrunc(x).v
      \/ va' = Take(VAdd(va, x), va)
      \/ va' = Take(VSub(va, x), va)
      \/ va' = Take(VAlignUp(va, x), va)   /\ VAlignConstrained(x)
      \/ va' = Take(VAlignDown(va, x), va) /\ VAlignConstrained(x)
      \/ va' = Take(StepFwd(va, x), va)
      \/ va' = Take(StepBack(va, x), va)
      \/ \E s \in SizeClass :
           \/ va' = Containing(va, s).v
           \/ va' = Take(PageAdd(Containing(va, s).v, x, s), va)
           \/ va' = Take(PageSub(Containing(va, s).v, x, s), va)
           \/ va' = Take(PageStepFwd(Containing(va, s).v, x, s), va)
           \/ va' = Take(PageStepBack(Containing(va, s).v, x, s), va)
      \/ (N(x) < 2^(4 * IB)) /\ \E s \in SizeClass :
           va' = FromIndices(s, (N(x) \div 2^(3 * IB)) % 2^IB, (N(x) \div 2^(2 * IB)) % 2^IB,
                             (N(x) \div 2^IB) % 2^IB, N(x) % 2^IB)
      \/ (N(x) < 2^IB) /\ va' \in { RecP3(N(x), va), RecP2(N(x), va), RecP1(N(x), va) }
ProgNextP(x) ==
      \/ pa' = Take(PNew(x), pa)
      \/ pa' = Take(PTryNew(x), pa)
      \/ pa' = PTrunc(x).v
      \/ pa' = Take(PAdd(pa, x), pa)
      \/ pa' = Take(PSub(pa, x), pa)
      \/ pa' = Take(PAlignUp(pa, x), pa)
      \/ pa' = Take(PAlignDown(pa, x), pa)
      \/ \E s \in SizeClass :
           \/ pa' = Containing(pa, s).v
           \/ pa' = Take(FrameAdd(Containing(pa, s).v, x, s), pa)
           \/ pa' = Take(FrameSub(Containing(pa, s).v, x, s), pa)
ProgNext ==
    \E x \in AllW :
      /\ a' = x /\ b' = b
      /\ \/ pa = ZeroW /\ pa' = pa /\ ProgNextV(x)
         \/ va = ZeroW /\ va' = va /\ ProgNextP(x)
ProgSpec == ProgInit /\ [][ProgNext]_<<a, b, va, pa>>
ProgInv == Canonical(va) /\ PhysValid(pa)
ProgView == <<va, pa>>
=============================================================================
