--------------------------------- MODULE Idt ---------------------------------
(***************************************************************************)
(* The interrupt descriptor table (C12, C13): 256 gates of 16 bytes in the *)
(* architectural 64-bit gate format (Intel SDM vol. 3 fig. 6-8; AMD APM    *)
(* vol. 2 fig. 4-24):                                                      *)
(*   low qword : offset[15:0] | selector<<16 | IST<<32 (3 bits) |          *)
(*               0 (5 bits) | type<<40 (4 bits) | 0<<44 | DPL<<45 | P<<47 | *)
(*               offset[31:16]<<48                                         *)
(*   high qword: offset[63:32] | reserved (32 bits, zero)                  *)
(* A gate is kept decoded; Encode gives the raw words the CPU reads.       *)
(***************************************************************************)
EXTENDS Addr, FiniteSets, TLC

VARIABLE gates       \* [0..255 -> [present, addr, cs, ist, type, dpl]]

VecDom == 0 .. 255    \* all vectors (a design-check configuration may restrict the domain)
InterruptGate == 14   \* 0xE
TrapGate == 15        \* 0xF

Missing == [present |-> 0, addr |-> ZeroW, cs |-> 0, ist |-> 0, type |-> InterruptGate, dpl |-> 0]

Encode(g) ==
    << OrW(OrW(OrW(AndW(g.addr, LowMask(16)), Shl(W(g.cs), 16)),
               OrW(Shl(W(g.ist), 32), Shl(W(g.type), 40))),
           OrW(OrW(Shl(W(g.dpl), 45), Shl(W(g.present), 47)),
               Shl(AndW(Shr(g.addr, 16), LowMask(16)), 48))),
       Shr(g.addr, 32) >>

Decode(lo, hi) ==
    [present |-> Bit(lo, 47),
     addr |-> OrW(OrW(AndW(lo, LowMask(16)), Shl(Shr(lo, 48), 16)), Shl(AndW(hi, LowMask(32)), 32)),
     cs |-> Field(lo, 16, 32), ist |-> Field(lo, 32, 35), type |-> Field(lo, 40, 44), dpl |-> Field(lo, 45, 47)]
ReservedZero(lo, hi) == Field(lo, 35, 40) = 0 /\ Bit(lo, 44) = 0 /\ Shr(hi, 32) = ZeroW

(* vectors (SDM vol. 3 table 6-1, APM vol. 2 table 8-1) *)
Reserved == {15, 31} \cup (22 .. 27)
ErrorCodeVectors == {8, 10, 11, 12, 13, 14, 17, 21, 29, 30}
Diverging == {8, 18}
(* plain `idt[v]` yields an entry with the ordinary handler signature only *)
IndexRefused == Reserved \cup ErrorCodeVectors \cup Diverging

(* actions *)
SetHandlerAddr(v, a, cs) ==
    gates' = [gates EXCEPT ![v] = [present |-> 1, addr |-> a, cs |-> cs, ist |-> 0,
                                   type |-> InterruptGate, dpl |-> 0]]
SetPresent(v, b) == gates' = [gates EXCEPT ![v].present = b]
DisableInterrupts(v, dis) == gates' = [gates EXCEPT ![v].type = IF dis = 1 THEN InterruptGate ELSE TrapGate]
SetPrivilegeLevel(v, d) == gates' = [gates EXCEPT ![v].dpl = d]
SetStackIndex(v, i) == gates' = [gates EXCEPT ![v].ist = i + 1]      \* IST index + 1; 0 = no stack switch
SetCodeSelector(v, s) == gates' = [gates EXCEPT ![v].cs = s]
Reset == gates' = [v \in VecDom |-> Missing]

(* range access: RangeBounds over u8 -> (lower, upper) vector indices, upper exclusive *)
Lower(kind, a) == CASE kind = "incl" -> a [] kind = "excl" -> a + 1 [] OTHER -> 0
Upper(kind, b) == CASE kind = "incl" -> b + 1 [] kind = "excl" -> b [] OTHER -> 256
(* a slice of vectors lower..upper-1, refused below 32 or when the bounds are reversed *)
RangeAccess(sk, a, ek, b) ==
    LET lo == Lower(sk, a)
        hi == Upper(ek, b)
    IN IF lo < 32 \/ hi < lo \/ lo > 256 THEN [k |-> "panic", off |-> 0, len |-> 0]
       ELSE [k |-> "ok", off |-> 16 * lo, len |-> hi - lo]

(* set_general_handler over vectors lo..hi-1 *)
GeneralTargets(lo, hi) == { v \in 0 .. 255 : lo <= v /\ v < hi /\ v \notin Reserved }
=============================================================================
