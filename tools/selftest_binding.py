#!/usr/bin/env python3
"""selftest_binding.py <ID> [count] : demonstrate that the trace specification of property <ID> is bound to what the
harness records: take the traces of the last quick run (work/<ID>/*.ndjson), corrupt ONE logged number in each of
`count` randomly chosen events (default 40 per trace; fields `rip`/`prof` excluded: they are not constrained), validate
the corrupted traces with TLC and report how many corrupted events were rejected.  A specification that only
constrained the length of the trace would reject none.  Writes evidence/selftest_<ID>.json.  Exit 0 if at least 25 %
of the corruptions were rejected (the rest are corruptions of numbers the specification deliberately leaves
free, e.g. a value the property does not speak about), 1 otherwise."""
import glob, json, os, random, sys
sys.path.insert(0, os.path.join(os.environ.get("VERIF_ROOT", "/verif"), "lib"))
import vlib, plans

def leaves(x, path, out):
    """paths of the numbers that may be corrupted: numbers that are non-zero or limbs of a non-zero word (all-zero
    fields are mostly unused parameter slots, which no specification can be expected to constrain)"""
    if isinstance(x, bool):
        return
    if isinstance(x, int):
        if x != 0:
            out.append(path)
    elif isinstance(x, list):
        if len(x) == 4 and all(isinstance(i, int) and not isinstance(i, bool) for i in x):
            if any(x):
                out.extend(path + [i] for i in range(4))
            return
        for i, y in enumerate(x):
            leaves(y, path + [i], out)
    elif isinstance(x, dict):
        for k, y in x.items():
            if k in ("rip", "prof", "op"):
                continue
            leaves(y, path + [k], out)

def flip(ev, path):
    cur = ev
    for k in path[:-1]:
        cur = cur[k]
    cur[path[-1]] ^= 1

def main():
    prop = sys.argv[1]
    count = int(sys.argv[2]) if len(sys.argv) > 2 else 40
    plan = plans.PLANS[prop]("quick", 1)
    rnd = random.Random(12345)
    total = rejected = 0
    detail = []
    for r in plan["runs"]:
        tp = "%s/%s/%s_%d_%s.ndjson" % (vlib.WORK, prop, r["name"], 1, r["prof"])
        if not os.path.exists(tp):
            continue
        lines = open(tp).read().split("\n")
        # one corruption per behaviour: stateful families skip the rest of a behaviour after a rejection
        starts = [i for i, l in enumerate(lines) if '"op":"reset"' in l or '"op":"gdt_reset"' in l or '"op":"inject"' in l]
        if starts:
            groups = []
            for a, b in zip(starts, starts[1:] + [len(lines)]):
                g = [i for i in range(a + 1, b) if lines[i].strip()]
                if g:
                    groups.append(g)
            chosen = sorted(rnd.choice(g) for g in rnd.sample(groups, min(count, len(groups))))
        else:
            idx = [i for i, l in enumerate(lines) if l.strip()]
            chosen = sorted(rnd.sample(idx, min(count, len(idx))))
        what = {}
        for i in chosen:
            ev = json.loads(lines[i])
            ls = []
            leaves(ev, [], ls)
            if not ls:
                continue
            p = rnd.choice(ls)
            flip(ev, p)
            lines[i] = json.dumps(ev, separators=(",", ":"))
            what[i + 1] = (ev.get("op"), ".".join(str(x) for x in p))
        bad = tp.replace(".ndjson", ".corrupt.ndjson")
        open(bad, "w").write("\n".join(lines))
        v = vlib.validate_trace(r.get("trace_module", plan["trace_module"]), bad, "self_" + prop, timeout=3600)
        mm = set(v["mismatch"])
        # stateful families skip the rest of a behaviour after a rejection: a corrupted line inside a skipped
        # stretch cannot be judged, count only lines that were actually evaluated (rejected, or no rejection before
        # them in the same behaviour); conservatively: a corrupted line counts as accepted unless it was rejected
        for ln, (op, path) in what.items():
            total += 1
            hit = ln in mm
            rejected += hit
            if not hit and len(detail) < 12:
                detail.append({"trace": os.path.basename(tp), "line": ln, "op": op, "field": path})
        os.remove(bad)
    ratio = rejected / total if total else 0.0
    out = {"property_id": prop, "corrupted_events": total, "rejected": rejected, "ratio": round(ratio, 3),
           "examples_not_rejected": detail}
    json.dump(out, open(vlib.EVID + "/selftest_%s.json" % prop, "w"), indent=1)
    print("selftest %s: %d single-number corruptions, %d rejected (%.0f%%)" % (prop, total, rejected, 100 * ratio))
    for d in detail[:6]:
        print("  not rejected:", d)
    return 0 if ratio >= 0.25 else 1

if __name__ == "__main__":
    sys.exit(main())
