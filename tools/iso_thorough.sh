#!/bin/bash
# iso_thorough.sh [ids...] : run the thorough tier of the given (default: all) properties in an isolated copy of
# /verif (/tmp/vthor) whose harness builds against a scratch worktree of /repo HEAD, so that seeded-change
# experiments in /repo and edits in /verif do not disturb it.  Results: /tmp/vthor/THOROUGH.txt
set -u
V=/tmp/vthor; W=/tmp/mut/thorrepo
rm -rf $V; mkdir -p $V /tmp/mut
rsync -a --exclude harness/target --exclude work --exclude .git /verif/ $V/
git -C /repo worktree remove --force $W 2>/dev/null
git -C /repo worktree add -q --detach $W HEAD || exit 2
sed -i "s|path = \"/repo\"|path = \"$W\"|" $V/harness/Cargo.toml
export VERIF_ROOT=$V
mkdir -p $V/work
: > $V/THOROUGH.txt
ids="$@"; [ -z "$ids" ] && ids="C19 C18 C17 C16 C15 C14 C13 C12 C08 C04 C03 C20 C05 C06 C07 C11 C01 C02 C09 C10"
for p in $ids; do
  t0=$(date +%s)
  $V/bin/check $p --tier thorough > $V/work/thorough_$p.log 2>&1; rc=$?
  echo "$p exit=$rc $(( $(date +%s) - t0 ))s | $(tail -1 $V/work/thorough_$p.log | cut -c1-200)" >> $V/THOROUGH.txt
done
git -C /repo worktree remove --force $W
echo DONE >> $V/THOROUGH.txt
