#!/usr/bin/env python3
"""Regenerate /verif/MANIFEST.json from the table below (single source of truth for claims)."""
import json

IDS = [json.loads(l)["id"] for l in open("/verif/properties.jsonl")]

TB_PURE = ("Trusted: TLC 1.8 + CommunityModules (Json, IOUtils, Bitwise); Arch constants and the declarative lemmas in the "
           "specification (written from the manuals / property text, not from the crate); the harness logs raw operands/results "
           "faithfully. The unbounded input quantifier is exhaustive only at scaled word widths (same operator text) and sampled "
           "at 64 bit on a boundary lattice plus seeded random values.")

CLAIMS = {
    "C03": dict(ref="§5 C03", tech="TLA+ spec (Addr.tla) model-checked exhaustively at 8/12-bit words with TLC (lemmas + AddrProg state machine); TLC trace validation of recorded executions of the real crate (Trace_Addr.tla)",
                text="TLC explores the AddrProg state machine (every valid address x every safe operation x every operand) and the constructor lemmas for all 8-bit (quick) / 12-bit (thorough) words; every constructor call and every step of seeded random programs on the real crate (64-bit boundary lattice, dev+release) is recorded and validated by TLC against the same operators at real widths, including the validity predicate on every returned address.",
                note=TB_PURE),
    "C04": dict(ref="§5 C04", tech="TLA+ spec (Addr.tla) lemmas model-checked at scaled widths; TLC trace validation of the real index/offset API (Trace_Addr.tla), finite domains enumerated completely",
                text="Bijection lemmas (indices <-> unique canonical aligned page) are checked by TLC for all scaled words; on the real crate all accessors are recorded for the canonical lattice + random addresses, from_page_table_indices* over a 14-value index lattice product, all 65536 u16 inputs of the four small constructors and all four levels, and validated by TLC against bit fields 39-47/30-38/21-29/12-20/0-11.",
                note=TB_PURE),
    "C05": dict(ref="§5 C05", tech="TLA+ spec: stepping = position arithmetic on the canonical sequence, checked against a declarative n-th-canonical-address definition by TLC at scaled widths; TLC trace validation of core::iter::Step on the real types",
                text="TLC checks for all scaled (start, count) and (start, end) pairs that StepFwd/StepBack/StepsBetween equal the declarative definitions over the sorted set of canonical addresses (pages of each size, indices) and are mutually inverse; recorded Step calls on VirtAddr, Page<4K/2M/1G>, PageTableIndex (boundary starts x boundary counts incl. >= 2^48 and count*size overflow, all 512 indices) are validated against the same operators.",
                note=TB_PURE),
    "C06": dict(ref="§5 C06", tech="TLA+ spec: align/contain operators checked against greatest/least-(canonical-)multiple set definitions by TLC at scaled widths; TLC trace validation of the real align_*/containing_address/from_start_address",
                text="TLC checks for all scaled (address, alignment) pairs: AlignDown/Up = greatest/least multiple, virtual variants = greatest/least canonical multiple (alignments <= 2^(VB-1)), panics exactly for non-powers of two / overflow (2^WB raw+virtual, 2^PB physical); recorded calls on the 64-bit lattice x all 64 powers of two x non-powers, both profiles, are validated against the same operators. Alignments above 2^47 for virtual addresses are unconstrained, as in the property.",
                note=TB_PURE),
    "C07": dict(ref="§5 C07", tech="TLA+ spec: exact-or-PANIC arithmetic and range item/length operators checked against natural-number arithmetic by TLC at scaled widths; TLC trace validation of the real operators and fully iterated ranges in debug AND release builds",
                text="TLC checks for all scaled operands that VAdd/VSub/PAdd/PSub/Page*/Frame* are the exact natural-number result or PANIC, and that range length/items/size equal the arithmetic progression; the real crate is driven in both build profiles (overflow checks on and off) on boundary bases x boundary offsets and on ranges ending at the last page of each half / last frame / zero / random interior, every yielded item logged; TLC validates each event. Found and fixed F1-F3 (see known_findings.json).",
                note=TB_PURE),
}

TB_PT = ("Trusted: TLC 1.8 + CommunityModules; PageTables.tla as the statement of the intended behaviour (written from the trait "
         "documentation and the property text) and its entry bit layout; the harness's simulated physical memory (memfd arena, "
         "snapshot/diff, SIGSEGV recovery) and raw logging. Histories are explored exhaustively only inside the small universes of "
         "MC_PT_*.cfg (design level); conformance of the real crate is established on seeded random histories over the large universe "
         "(testing, not proof). All three mapper kinds are driven; RecursivePageTable through a software MMU (SIGSEGV handler that walks the "
         "simulated tables from the emulated CR3) for recursive indices < 256; upper-half physical-memory offsets and recursive indices "
         ">= 256 cannot be dereferenced in a user process.")

CLAIMS.update({
    "C01": dict(ref="§5 C01", tech="TLA+ state machine of the page-table hierarchy + hardware walk (PageTables.tla) model-checked exhaustively with TLC over small universes (invariant WalkIsHistory, ParentRights); TLC trace validation (Trace_PT.tla) of recorded call histories of the real MappedPageTable/OffsetPageTable with raw-memory comparison after every call; specification -> implementation replay of a stratified sample (thorough: all) of the TLC-generated transitions with the pre-state injected; the PAT bit of huge leaves is modelled",
                text="TLC explores every reachable hierarchy of the MC_PT universe and every call from each (3 sizes nested, all allocator failure schedules, unmap, update_flags, set_flags_p4-p2, clean-up of every range) and checks that an independent hardware-style walk equals what the history of successful calls dictates; the real mappers are driven on seeded random histories over all 512 indices / both halves / frames up to 2^52, and TLC validates each call: result, raw changed table slots = specification's next state, and translate/translate_addr/translate_page of probe addresses = hardware walk of the specification's table memory = history.",
                note=TB_PT),
    "C02": dict(ref="§5 C02", tech="TLA+ action properties ErrorIsNoOp / NoPhantomSuccess on PageTables.tla checked by TLC for every transition of the small universe (all allocator failure schedules); TLC trace validation of error-heavy histories of the real mappers (error kind + raw memory unchanged); the same stratified replay of TLC-generated transitions on all three mapper kinds",
                text="For every reachable state x every operation x every failure schedule of the MC_PT universe TLC checks that an error changes no translation and that unmap/update/translate_page succeed only for a mapping the history holds; on the real crate an error-heavy mix (allocator failing at the 1st/2nd/3rd request of half of the maps) is recorded and each call must return exactly the documented error kind (any error where the documentation is silent), identically for both mapper kinds, with raw table memory unchanged except allowed parent-flag widening and freshly linked zeroed tables. Found and fixed F4, F6, F7 (MappedPageTable).",
                note=TB_PT),
    "C09": dict(ref="§5 C09", tech="TLA+ spec: allocation bounds / tree shape invariants checked by TLC; TLC trace validation of allocator conversation, touched-frame set, whole-arena diff and complete contents of new tables over junk-filled simulated physical memory",
                text="TLC checks AllocBound (<= 1/2/3 requests, only map allocates, only clean-up releases) and TreeShape on every transition/state of the small universe; on the real crate physical memory is pre-filled with non-zero junk, the allocator hands out fresh/recycled/huge-aligned frames in random order, and TLC validates per call: requested frames = missing tables, every pointer the mapper asked for (exact for MappedPageTable) or faulted on (OffsetPageTable, SIGSEGV) is a table of the hierarchy or just allocated, no other 8-byte slot of the arena changed, all non-zero slots of a new table were written by this call.",
                note=TB_PT + " Reads of non-table memory are detected exactly for MappedPageTable (every frame_to_pointer request is logged) and by page fault for OffsetPageTable when the frame has no backing store (data frames never have)."),
    "C10": dict(ref="§5 C10", tech="TLA+ spec: clean-up as a non-deterministic action bounded by InsideEmpty <= D <= OverlapEmpty, checked by TLC on every reachable hierarchy x every range of the small universe; TLC trace validation of clean_up / clean_up_addr_range of the real mappers (deallocation log, unlink-before-free, raw memory, idempotence)",
                text="TLC explores clean-up from every reachable hierarchy (incl. residues of failed maps and unmaps) with every range of the universe and every admissible freed set, checking translations unchanged and tree shape; on the real crate a clean-up-heavy mix with ranges of every class (empty, single page, one table per level, unaligned, spanning the gap, ending at the last page, whole space; repeated immediately half of the time) is recorded and TLC validates the freed set against the bounds evaluated on the specification's pre-state, each frame once, unlinked before release (checked at the instant of deallocate_frame), untouched tables outside the range, second call frees nothing.",
                note=TB_PT),
})

TB_CPU = ("Trusted: TLC 1.8 + CommunityModules; Cpu.tla's transcription of instruction formats from the SDM/APM; the harness's ring-3 "
          "trap-and-emulate decoder (SIGSEGV/SIGILL, operands read from the signal frame) and the kernel's signal delivery. The compiled "
          "wrappers themselves execute (debug and release builds); instructions that do not fault in ring 3 (pushfq, rd/wr fs/gs base, "
          "xgetbv, mov r,sreg) are observed natively or through hook H2. invlpgb/tlbsync are #UD on this Intel host and are emulated from the APM description.")

CLAIMS.update({
    "C11": dict(ref="§5 C11", tech="TLA+ spec of TLB-invalidation requests (Cpu.tla: INVLPG/INVPCID/INVLPGB operand decoding, coverage / per-request maximum / no-gap-crossing predicates) and of flush tokens (PageTables.tla); TLC trace validation of the instructions trapped while the real flush wrappers run; MC_PT_tlb design check (a stale TLB entry is always covered by a pending token); all-pages broadcast flush, ASID range check, very long ranges under a watchdog; calling-context and register-pressure probes (Trace_Cpu CtxOK / pressure / lean: each wrapper called from leaf functions that keep a carry, 13 register-held and 8 red-zone values or dirty upper register halves alive across the call, in debug and release) so that an untruthful asm! contract (clobbers, operand width, nostack, pure, preserves_flags) shows",
                text="Every trapped invlpg / mov-cr3 / invpcid / invlpgb / tlbsync executed by tlb::flush, flush_all, flush_pcid, MapperFlush::flush, MapperFlushAll::flush_all and InvlpgbFlushBuilder::flush (debug+release) is decoded by the specification and checked against the call's arguments: exactly one invalidation of the given address; CR3 reloaded with its current value; descriptor = (PCID, address, kind); broadcast requests sequentially cover the range, counts <= processor maximum, options carried, no request crosses the non-canonical gap (count = additional pages, APM); every successful mapper call of a recorded page-table history returns a token naming the argument page. Found and fixed F9, F10.",
                note=TB_CPU),
    "C17": dict(ref="§5 C17", tech="TLA+ state machine of the interrupt flag under nested without_interrupts (MC_Intr.tla) model-checked by TLC and proved inductive for every nesting depth with TLAPS (spec/proofs/IntrProof.tla, 257 obligations, re-checked by every run); TLC trace validation (Trace_Cpu.tla) of all small programs, random deep programs and a window probe (closure loads/stores stay between cli and sti) executed on the real functions with cli/sti/hlt trapped; calling-context and register-pressure probes (Trace_Cpu CtxOK / pressure / lean: each wrapper called from leaf functions that keep a carry, 13 register-held and 8 red-zone values or dirty upper register halves alive across the call, in debug and release) so that an untruthful asm! contract (clobbers, operand width, nostack, pure, preserves_flags) shows",
                text="TLC explores all nestings/interleavings of the documented algorithm with flag-preserving bodies up to depth 4 and checks restoration and IF-clear bodies (tlapm proves the same two invariants for unbounded depth from an inductive strengthening); on the real crate every statement tree with <= 4 nodes (both initial flag states) and random programs to depth 6 run as nested closures; every program point logs trapped instructions and the emulated flag, and TLC checks: body exactly once with IF clear, flag after = flag before, result returned, enable/disable only sti/cli, are_enabled = flag, enable_and_hlt = sti immediately followed by hlt (adjacent addresses).",
                note=TB_CPU + " rflags::read_raw shows the emulated IF through hook H2 (pushfq cannot be trapped), so a defect inside the pushfq asm itself that only affects the IF bit would be masked."),
    "C18": dict(ref="§5 C18", tech="TLC trace validation (Trace_Cpu.tla) of every in/out instruction trapped while the real Port objects are used; the finite domain ports x widths x access kinds is enumerated completely; calling-context and register-pressure probes (Trace_Cpu CtxOK / pressure / lean: each wrapper called from leaf functions that keep a carry, 13 register-held and 8 red-zone values or dirty upper register halves alive across the call, in debug and release) so that an untruthful asm! contract (clobbers, operand width, nostack, pure, preserves_flags) shows",
                text="All 65536 ports x 3 widths x {Port read/write, PortReadOnly read, PortWriteOnly write} in debug and release builds: TLC checks per access exactly one instruction, of the type's width (opcode/prefix), DX = port, AL/AX/EAX = value written, returned value = value the emulated device supplied; repeated and discarded reads are separate accesses; equality/clone/clone_from follow the port number.",
                note=TB_CPU + " 'Without touching memory' is not observed (ordinary memory accesses do not trap)."),
})

CLAIMS["C20"] = dict(ref="§5 C20", tech="TLA+ spec of recursive table addresses (Addr.tla RecP3/RecP2/RecP1, lemma L_Rec checked by TLC at scaled widths) and of the constructor's acceptance condition (Trace_PT.tla RptNewStep); MC_PT with a recursive slot; TLC trace validation of RecursivePageTable::new, of the software-MMU access log of the real recursive mapper, and of the computed table pages (hook H3)",
    text="TLC checks for all scaled (page, index) pairs that the recursive addresses have indices (R,R,R,p4)/(R,R,p4,p3)/(R,p4,p3,p2), are canonical and page-aligned, and explores the page-table state machine with a recursive slot; on the real crate: new() over recursive and near-recursive table addresses x root-register contents x slot contents must answer Ok/NotRecursive/NotActive exactly as specified and use the common index; every recursive-region page the mapper touches during random histories must be one the property names for that call and reach the frame the specification's hardware walk reaches; the computed table pages are compared for all 512 indices x lattice pages x 3 sizes.",
    note=TB_PT)

CLAIMS["C16"] = dict(ref="§5 C16", tech="TLA+ contracts of typed/raw/update register accesses (Cpu.tla TypedWriteVal/UpdateVal, checked for all 8-bit contents x masks x arguments by TLC in MC_Regs) and per-wrapper contracts on the trapped instruction stream (Trace_Cpu.tla RegContract); TLC trace validation of the real wrappers running on the trap-and-emulate CPU; in-function read/write/read and double-update sequences (release build) so that wrong asm options (pure/nomem/nostack) show; red-zone probe for the RFLAGS accessors; calling-context and register-pressure probes (Trace_Cpu CtxOK / pressure / rwr / lean: each wrapper called from leaf functions that keep a carry, 13 register-held and 8 red-zone values or dirty upper register halves alive across the call, in debug and release) so that an untruthful asm! contract (clobbers, operand width, nostack, pure, preserves_flags) shows",
    text="For every wrapper and API the emulated register is preset, the compiled wrapper runs (debug+release) and every privileged instruction it executes traps; TLC checks that all instructions address the register the wrapper is named after (CR/DR number, MSR index in ECX), that the operand seen by the CPU (EDX:EAX, source register) is the value the contract prescribes - typed write = unmodelled bits of the previous content | given fields, raw write exact, read = modelled bits, update = read-modify-write, documented invalid STAR/XCR0 combinations rejected with no write instruction - and the return values. Found and fixed F8 (ApicBase::write).",
    note=TB_CPU + " Natively executing accesses (selector reads, FS/GS base, xgetbv, rflags, mxcsr) are compared with independent inline asm of the harness and limited to values ring 3 may load; FS::write_base is only exercised with the current base. SFMask/Pat/UCet/SCet/address MSR presets are restricted to contents the hardware can hold (the typed reads unwrap).")

CLAIMS["C08"] = dict(ref="§5 C08", tech="TLA+ state machine of a page-table entry (Pte.tla) model-checked by TLC over all aligned addresses x all flag sets x all operation sequences at scaled width (MC_Pte); TLC trace validation (Trace_Pte.tla) of entry programs and of table slot access paths / raw bytes on the real types",
    text="TLC explores the entry state machine at scaled width (every aligned address, every flag set, every sequence of set_addr/set_flags/set_unused) with ghost address/flags and checks independence, read-back, unused <=> zero, frame <=> present; on the real crate random entry programs log the raw u64 before/after each step and every getter, and a table is written at all 512 slots through each access path and read back through all paths and as raw little-endian bytes at offset 8i, with new/zero/is_empty/clone/default, size and alignment.",
    note=TB_PURE)

CLAIMS["C14"] = dict(ref="§5 C14", tech="TLA+ state machine of the GDT (Gdt.tla) model-checked by TLC over all append sequences for capacities 1..6 (MC_Gdt: null first, order, capacity, refused append is a no-op, selector = first slot/GDT/DPL, limit); TLC trace validation (Trace_Gdt.tla) of append histories, from_raw_entries and the trapped lgdt operand on the real type for MAX in {1,2,3,8,9,8192}; cross-structure delivery check (Machine.tla / Trace_Machine.tla); calling-context and register-pressure probes (Trace_Cpu CtxOK / pressure / rwr / lean: each wrapper called from leaf functions that keep a carry, 13 register-held and 8 red-zone values or dirty upper register halves alive across the call, in debug and release) so that an untruthful asm! contract (clobbers, operand width, nostack, pure, preserves_flags) shows",
    text="TLC explores every append sequence over user/system descriptors of all DPLs for capacities 1..6 and checks the table invariants and that selectors never overlap; the real GlobalDescriptorTable is driven with random sequences until and beyond capacity for MAX in {1,2,3,8,9,8192}; after each append TLC compares selector, length, limit and the tail of entries() with the state machine (a panicking append must leave the table unchanged), then the complete table, the clone, the lgdt operand (base = address of entries()[0], limit = 8*slots-1) and from_raw_entries incl. its refusal cases.",
    note=TB_CPU)
CLAIMS["C15"] = dict(ref="§5 C15", tech="TLA+ decoders of the architectural descriptor formats (Gdt.tla DecodeSys/DecodeUser/TssDescriptorOK/PresetOK; encode-decode round trip checked by TLC); TLC trace validation of tss_segment*, the predefined descriptors, dpl() and the TSS / descriptor-table-pointer layouts of the real crate; cross-structure delivery check (Machine.tla / Trace_Machine.tla: ltr and IST/RSP0 stacks read from the raw TSS image)",
    text="The TSS descriptor returned for every pointer of the 64-bit boundary lattice and random pointers is decoded by the specification per the 16-byte system-descriptor format and must give base = pointer, limit 0x67, type 9, present, DPL 0, all reserved bits zero; predefined code/data descriptors and flag presets must decode to what their names state; dpl() = bits 45-46; field offsets, sizes, iomap_base = 0x68 and the raw bytes of a DescriptorTablePointer are compared with the manual's layout.",
    note=TB_PURE.replace("the declarative lemmas in the specification", "the descriptor decoders in Gdt.tla"))

CLAIMS["C12"] = dict(ref="§5 C12", tech="TLA+ model of the IDT with the architectural 64-bit gate encoding (Idt.tla; setters as a state machine checked by TLC in MC_Idt: own field of own gate only, encode/decode round trip, reserved bits zero); TLC trace validation (Trace_Idt.tla) of raw-byte diffs of the real table after every call, of index/range access and of the trapped lidt operand; cross-structure delivery check (Machine.tla / Trace_Machine.tla: every vector delivered over the raw IDT/GDT/TSS memory handed to the emulated CPU); calling-context and register-pressure probes (Trace_Cpu CtxOK / pressure / rwr / lean: each wrapper called from leaf functions that keep a carry, 13 register-held and 8 red-zone values or dirty upper register halves alive across the call, in debug and release) so that an untruthful asm! contract (clobbers, operand width, nostack, pure, preserves_flags) shows",
    text="TLC explores all setter sequences on a restricted vector domain and checks that every setter changes only its field of its gate and that gates encode/decode per the architectural layout; on the real crate, for all 256 vectors and every access path, handler installation and random option-setter sequences are recorded with the raw 16-byte gates that changed and TLC compares them with the encoding of the specification's gate (address, current CS, present, interrupt gate, DPL 0, IST 0; setters change only their field; handler_addr reads back); Index<u8> offset = 16v or refusal exactly on reserved/error-code/diverging vectors; every RangeBounds form gives the slice at byte 16*lower of length upper-lower or refuses below vector 32; untouched/reset tables are all non-present interrupt gates; lidt gets the table address and limit 4095.",
    note=TB_CPU)

CLAIMS["C13"] = dict(ref="§5 C13", tech="TLA+ model of the IDT (Idt.tla: GeneralTargets, gate decoding) and trace validation (Trace_Idt.tla SghOK/DeliverOK) of set_general_handler! on run-time ranges and of simulated hardware interrupt delivery into every installed stub of the real crate, plus iretq",
    text="For every tested range TLC checks on the raw table bytes that exactly the non-reserved vectors of the range became present interrupt gates with the current CS, DPL 0, IST 0, pairwise distinct canonical stub addresses, and that all other gates are byte-identical; each installed stub is then entered like the CPU would (frame and error code pushed, jump to the decoded gate offset) and TLC checks: general handler called exactly once with index v, the pushed frame contents, an error code exactly on the error-code vectors with the pushed value, and for returning vectors execution resumes at the interrupted rip/rsp/rflags; iretq on a frame value lands at exactly its rip/rsp/rflags.",
    note=TB_CPU + " Frame contents are restricted to what ring 3 can return to (user CS/SS, IF=1, IOPL 0); each delivery runs in a forked child so that a crashing stub is data.")

CLAIMS["C19"] = dict(ref="§5 C19", cat="exploration", tech="complete enumeration of the crate's named constants and of the small codecs' finite input domains, compared by TLC (Trace_Consts.tla) with an independently written architecture table (ArchConsts.tla)",
    text="Not a state machine: every named flag/constant is enumerated at run time and TLC compares it with a table transcribed from the manuals by bit number (a constant the table does not know is reported as UNCHECKED, one the crate no longer yields as ABSENT - neither is a violation); all u8/u16 inputs of the small value types and the DR7 field combinations are enumerated and checked against the architectural field positions. The domain is finite and fully enumerated, so this is exhaustive exploration rather than model checking.",
    note="Trusted: ArchConsts.tla (my transcription of the SDM/APM), TLC, the harness's enumeration. MSR numbers are private and observed as ECX of the trapped rdmsr.")

NA_DEFAULT = "check under construction in this session (planned in DESIGN.md section 5); not yet claimed"

m = {
    "version": 1,
    "setup_cmd": "cd /verif && ./bin/setup",
    "hooks": {
        "guard": "verif_hooks",
        "enable": "cargo feature `verif_hooks` of the x86_64 crate (off by default); the harness /verif/harness depends on /repo by path with features = [\"verif_hooks\"]",
        "baseline_off_cmd": "cd /repo && cargo test --workspace --no-fail-fast --offline",
        "source_commits": ["a1117d7", "867e974", "dd9a56d"],
        "add_only": True,
    },
    "engines": [
        {"name": "tlc-design", "path": "/verif/spec/MC_*.tla", "serves_properties": sorted(CLAIMS), "kind_free_text": "TLC exhaustive model checking of the TLA+ specification at small constants"},
        {"name": "tlc-trace", "path": "/verif/spec/Trace_*.tla", "serves_properties": sorted(CLAIMS), "kind_free_text": "TLC trace validation of ndjson traces recorded by /verif/harness (Rust, path-dep on /repo) from the real crate"},
    ],
    "checks": [],
    "not_applicable": [],
    "notes": "All checks: ./bin/check <ID> [--tier quick|thorough] [--seed N] [--replay PATH]; exit 0 ok, 1 VIOLATION, 2 tool error. See DESIGN.md.",
}
for pid in IDS:
    if pid in CLAIMS:
        c = CLAIMS[pid]
        m["checks"].append({
            "property_id": pid,
            "quick_cmd": "./bin/check %s --tier quick" % pid,
            "thorough_cmd": "./bin/check %s --tier thorough" % pid,
            "evidence_file": "/verif/evidence/%s.json" % pid,
            "replay_cmd_template": "./bin/check %s --replay {path}" % pid,
            "engine": "tlc-design + tlc-trace",
            "level_claimed": {"category": c.get("cat", "model_checking"), "text": c["text"], "design_ref": "DESIGN.md " + c["ref"]},
            "level_note": c["note"],
            "technique": c["tech"],
        })
    else:
        m["not_applicable"].append({"property_id": pid, "reason": NA_DEFAULT})
json.dump(m, open("/verif/MANIFEST.json", "w"), indent=1)
print("claimed:", sorted(CLAIMS), "not_applicable:", [x["property_id"] for x in m["not_applicable"]])
