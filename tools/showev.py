#!/usr/bin/env python3
"""showev.py <trace> <line> [context] : pretty-print events (limbs -> hex)"""
import json, sys
sys.path.insert(0, "/verif/lib")
import vlib
lines = open(sys.argv[1]).read().split("\n")
n = int(sys.argv[2]); ctx = int(sys.argv[3]) if len(sys.argv) > 3 else 0
for i in range(max(1, n - ctx), n + 1):
    e = json.loads(lines[i - 1])
    print(i, json.dumps(vlib.pretty(e)))
