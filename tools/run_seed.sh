#!/bin/bash
# run_seed.sh <seeded-name> <property> [check args] : apply a seeded change to /repo, run the check, undo it.
S=/verif/seeded/$1; P=$2; shift 2
git -C /repo diff --quiet || { echo "/repo has uncommitted changes"; exit 2; }
git -C /repo apply $S/patch.diff || { echo "patch does not apply"; exit 2; }
/verif/bin/check $P "$@"; rc=$?
git -C /repo checkout -- .
echo "SEED $(basename $S) property=$P exit=$rc"
exit $rc
