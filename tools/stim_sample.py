#!/usr/bin/env python3
"""stim_sample.py <in.ndjson> <out.ndjson> <every> <salt> [per_class] : sample the TLC-generated stimuli for the
quick tier.  Every stimulus is classified by (operation, size class, level argument, number of allocator answers,
what the hardware walk meets on the way to the operated slot: Z zero / T table / H huge leaf / L 4 KiB leaf);
`per_class` (default 12) evenly spaced members of EVERY class are kept - so rare nestings such as "2 MiB operation
inside a 1 GiB mapping" are always replayed - plus every `every`-th stimulus overall (offset by `salt`)."""
import json, sys
src, dst, every, salt = sys.argv[1], sys.argv[2], int(sys.argv[3]), int(sys.argv[4])
per = int(sys.argv[5]) if len(sys.argv) > 5 else 12

def w(x):
    return x[0] | x[1] << 16 | x[2] << 32 | x[3] << 48

def path_class(e):
    mem = {}
    for fr, idx, raw in e["mem"]:
        mem[(w(fr), idx)] = w(raw)
    page = w(e["page"]); s = e.get("s", 0)
    if e["op"] == "clean":
        return "-"
    cur = w(e["root"]); out = ""
    for lvl in (4, 3, 2, 1):
        i = (page >> (12 + 9 * (lvl - 1))) & 511
        raw = mem.get((cur, i), 0)
        if raw == 0:
            return out + "Z"
        if lvl == 1:
            return out + "L"
        if raw & 0x80 and lvl < 4:
            return out + "H"
        out += "T"
        cur = raw & 0x000f_ffff_ffff_f000
    return out

lines = open(src).read().split("\n")
classes = {}
for n, l in enumerate(lines):
    if not l.strip():
        continue
    e = json.loads(l)
    key = (e["op"], e.get("s"), e.get("K"), len(e.get("allocs", [])), path_class(e))
    classes.setdefault(key, []).append(n)
keep = set()
for key, ns in classes.items():
    if len(ns) <= per:
        keep.update(ns)
    else:
        step = len(ns) / per
        keep.update(ns[int((k + (salt % 7) / 7.0) * step) % len(ns)] for k in range(per))
for n, l in enumerate(lines):
    if l.strip() and (n + salt) % every == 0:
        keep.add(n)
with open(dst, "w") as f:
    for n in sorted(keep):
        f.write(lines[n] + "\n")
print("%d classes, %d of %d stimuli kept" % (len(classes), len(keep), sum(len(v) for v in classes.values())))
