#!/bin/bash
# confirm_seed.sh <ID> <mutdir> [--release] : confirm a seeded change in a scratch worktree of /repo HEAD:
#  patch applies, crate test suite passes with it, demo fails with it, demo passes without it.
ID=$1; M=$2; REL=$3
WT=/tmp/mut/confirm_$$
git -C /repo worktree add -q --detach $WT HEAD || exit 2
cd $WT
res() { echo "$1"; }
out=""
if ! git apply --check $M/patch.diff 2>/dev/null; then echo "RESULT $ID $M patch-does-not-apply"; cd /; git -C /repo worktree remove --force $WT; exit 1; fi
mkdir -p tests; cp $M/demo.rs tests/demo_$ID.rs
demo_clean=$(cargo test --offline $REL $CONFIRM_ARGS --test demo_$ID 2>&1 | grep -E "^test result" | head -1)
git apply $M/patch.diff
demo_mut=$(cargo test --offline $REL $CONFIRM_ARGS --test demo_$ID 2>&1 | grep -E "^test result|error(\[|:)" | head -1)
rm -rf tests
suite=$(cargo test --workspace --offline 2>&1 | grep -E "^test result" | tr '\n' ' ')
echo "RESULT $ID $M | demo clean: $demo_clean | demo mutated: $demo_mut | suite mutated: $suite"
cd /; git -C /repo worktree remove --force $WT
