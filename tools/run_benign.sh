#!/bin/bash
# run_benign.sh <name> <check ids...> : apply a benign (property-preserving) change to /repo, run the quick checks
# named (without design checks), undo it.  Every check must exit 0: an alarm here is a false alarm of the machinery.
B=/verif/benign/$1; shift
git -C /repo diff --quiet || { echo "/repo has uncommitted changes"; exit 2; }
git -C /repo apply $B/patch.diff || { echo "BENIGN $(basename $B) patch does not apply"; exit 2; }
for P in "$@"; do
  /verif/bin/check $P --no-design > /tmp/benign_$(basename $B)_$P.log 2>&1; rc=$?
  echo "BENIGN $(basename $B) check=$P exit=$rc $(grep -m1 '^REJECTED\|^TOOL' /tmp/benign_$(basename $B)_$P.log | cut -c1-300)"
done
git -C /repo checkout -- .
