#!/bin/bash
# seed_matrix.sh [names...] : run every seeded change (or the named ones) against the quick check of its property in
# an isolated copy of /verif (at /tmp/vseed) whose harness builds against a scratch worktree of /repo, so that
# neither /repo nor /verif/work are disturbed.  Results: /tmp/vseed/RESULTS.txt
set -u
V=/tmp/vseed; W=/tmp/mut/seedrepo
rm -rf $V; mkdir -p $V
rsync -a --exclude harness/target --exclude work --exclude .git /verif/ $V/
git -C /repo worktree remove --force $W 2>/dev/null
git -C /repo worktree add -q --detach $W HEAD || exit 2
sed -i "s|path = \"/repo\"|path = \"$W\"|" $V/harness/Cargo.toml
export VERIF_ROOT=$V
mkdir -p $V/work
: > $V/RESULTS.txt
names="$@"; [ -z "$names" ] && names=$(ls /verif/seeded | grep -v RESULTS)
for s in $names; do
  p=$(python3 -c "import json;print(json.load(open('/verif/seeded/$s/meta.json'))['property'])")
  props="$p"; extra=$(python3 -c "import json;print(' '.join(json.load(open('/verif/seeded/$s/meta.json')).get('also_check',[])))")
  git -C $W checkout -q -- . ; git -C $W apply /verif/seeded/$s/patch.diff || { echo "$s $p APPLY-FAIL" >> $V/RESULTS.txt; continue; }
  for q in $props $extra; do
    t0=$(date +%s)
    $V/bin/check $q --no-design > $V/work/seed_${s}_${q}.log 2>&1; rc=$?
    first=$(grep -m1 "^REJECTED" $V/work/seed_${s}_${q}.log | cut -c1-260)
    echo "$s check=$q exit=$rc $(( $(date +%s) - t0 ))s | $first" >> $V/RESULTS.txt
  done
done
git -C $W checkout -q -- .
git -C /repo worktree remove --force $W
echo DONE >> $V/RESULTS.txt
