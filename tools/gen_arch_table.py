#!/usr/bin/env python3
"""Generates /verif/spec/ArchConsts.tla from the table below.

The table is written from the architecture manuals (Intel SDM vol. 3 ch. 2.5, 4.5, 6, 17.2,
vol. 1 ch. 3.4.3, 10.2.3, 13.3; vol. 4 MSR list; AMD APM vol. 2 ch. 3, 4.8, 5, 8, 13.1), keyed by
the names the crate gives the items.  Bit numbers, not values, wherever the manual gives a bit."""

def bit(n): return 1 << n
def bits(lo, hi): return ((1 << (hi - lo + 1)) - 1) << lo

T = {
 "PageTableFlags": {  # SDM vol.3 table 4-19/4-20; APM vol.2 fig 5-21
  "PRESENT": bit(0), "WRITABLE": bit(1), "USER_ACCESSIBLE": bit(2), "WRITE_THROUGH": bit(3), "NO_CACHE": bit(4),
  "ACCESSED": bit(5), "DIRTY": bit(6), "HUGE_PAGE": bit(7), "PAT_4KIB_PAGE": bit(7), "GLOBAL": bit(8),
  "BIT_9": bit(9), "BIT_10": bit(10), "BIT_11": bit(11), "PAT_HUGE_PAGE": bit(12),
  **{"BIT_%d" % n: bit(n) for n in range(52, 63)}, "NO_EXECUTE": bit(63)},
 "DescriptorFlags": {  # SDM vol.3 fig 3-8
  "ACCESSED": bit(40), "WRITABLE": bit(41), "CONFORMING": bit(42), "EXECUTABLE": bit(43), "USER_SEGMENT": bit(44),
  "DPL_RING_3": bits(45, 46), "PRESENT": bit(47), "AVAILABLE": bit(52), "LONG_MODE": bit(53), "DEFAULT_SIZE": bit(54),
  "GRANULARITY": bit(55), "LIMIT_0_15": bits(0, 15), "LIMIT_16_19": bits(48, 51), "BASE_0_23": bits(16, 39),
  "BASE_24_31": bits(56, 63),
  # flat 4 GiB segments as used by Linux (arch/x86/kernel/cpu/common.c GDT_ENTRY_INIT flags 0xa09b, 0xc09b, 0xc093, +DPL 3)
  "KERNEL_CODE64": 0x00af9b000000ffff, "KERNEL_CODE32": 0x00cf9b000000ffff, "KERNEL_DATA": 0x00cf93000000ffff,
  "USER_CODE64": 0x00affb000000ffff, "USER_CODE32": 0x00cffb000000ffff, "USER_DATA": 0x00cff3000000ffff},
 "RFlags": {  # SDM vol.1 fig 3-8
  "CARRY_FLAG": bit(0), "PARITY_FLAG": bit(2), "AUXILIARY_CARRY_FLAG": bit(4), "ZERO_FLAG": bit(6), "SIGN_FLAG": bit(7),
  "TRAP_FLAG": bit(8), "INTERRUPT_FLAG": bit(9), "DIRECTION_FLAG": bit(10), "OVERFLOW_FLAG": bit(11),
  "IOPL_LOW": bit(12), "IOPL_HIGH": bit(13), "NESTED_TASK": bit(14), "RESUME_FLAG": bit(16), "VIRTUAL_8086_MODE": bit(17),
  "ALIGNMENT_CHECK": bit(18), "VIRTUAL_INTERRUPT": bit(19), "VIRTUAL_INTERRUPT_PENDING": bit(20), "ID": bit(21)},
 "Cr0Flags": {  # SDM vol.3 2.5
  "PROTECTED_MODE_ENABLE": bit(0), "MONITOR_COPROCESSOR": bit(1), "EMULATE_COPROCESSOR": bit(2), "TASK_SWITCHED": bit(3),
  "EXTENSION_TYPE": bit(4), "NUMERIC_ERROR": bit(5), "WRITE_PROTECT": bit(16), "ALIGNMENT_MASK": bit(18),
  "NOT_WRITE_THROUGH": bit(29), "CACHE_DISABLE": bit(30), "PAGING": bit(31)},
 "Cr3Flags": {"PAGE_LEVEL_WRITETHROUGH": bit(3), "PAGE_LEVEL_CACHE_DISABLE": bit(4)},
 "Cr4Flags": {  # SDM vol.3 2.5
  "VIRTUAL_8086_MODE_EXTENSIONS": bit(0), "PROTECTED_MODE_VIRTUAL_INTERRUPTS": bit(1), "TIMESTAMP_DISABLE": bit(2),
  "DEBUGGING_EXTENSIONS": bit(3), "PAGE_SIZE_EXTENSION": bit(4), "PHYSICAL_ADDRESS_EXTENSION": bit(5),
  "MACHINE_CHECK_EXCEPTION": bit(6), "PAGE_GLOBAL": bit(7), "PERFORMANCE_MONITOR_COUNTER": bit(8), "OSFXSR": bit(9),
  "OSXMMEXCPT_ENABLE": bit(10), "USER_MODE_INSTRUCTION_PREVENTION": bit(11), "L5_PAGING": bit(12),
  "VIRTUAL_MACHINE_EXTENSIONS": bit(13), "SAFER_MODE_EXTENSIONS": bit(14), "FSGSBASE": bit(16), "PCID": bit(17),
  "OSXSAVE": bit(18), "KEY_LOCKER": bit(19), "SUPERVISOR_MODE_EXECUTION_PROTECTION": bit(20),
  "SUPERVISOR_MODE_ACCESS_PREVENTION": bit(21), "PROTECTION_KEY_USER": bit(22), "CONTROL_FLOW_ENFORCEMENT": bit(23),
  "PROTECTION_KEY_SUPERVISOR": bit(24)},
 "EferFlags": {  # APM vol.2 3.1.7
  "SYSTEM_CALL_EXTENSIONS": bit(0), "LONG_MODE_ENABLE": bit(8), "LONG_MODE_ACTIVE": bit(10), "NO_EXECUTE_ENABLE": bit(11),
  "SECURE_VIRTUAL_MACHINE_ENABLE": bit(12), "LONG_MODE_SEGMENT_LIMIT_ENABLE": bit(13), "FAST_FXSAVE_FXRSTOR": bit(14),
  "TRANSLATION_CACHE_EXTENSION": bit(15)},
 "XCr0Flags": {  # SDM vol.1 13.3; APM vol.2 11.5.2 (LWP)
  "X87": bit(0), "SSE": bit(1), "AVX": bit(2), "BNDREG": bit(3), "BNDCSR": bit(4), "OPMASK": bit(5), "ZMM_HI256": bit(6),
  "HI16_ZMM": bit(7), "MPK": bit(9), "LWP": bit(62)},
 "MxCsr": {  # SDM vol.1 fig 10-3
  "INVALID_OPERATION": bit(0), "DENORMAL": bit(1), "DIVIDE_BY_ZERO": bit(2), "OVERFLOW": bit(3), "UNDERFLOW": bit(4),
  "PRECISION": bit(5), "DENORMALS_ARE_ZEROS": bit(6), "INVALID_OPERATION_MASK": bit(7), "DENORMAL_MASK": bit(8),
  "DIVIDE_BY_ZERO_MASK": bit(9), "OVERFLOW_MASK": bit(10), "UNDERFLOW_MASK": bit(11), "PRECISION_MASK": bit(12),
  "ROUNDING_CONTROL_NEGATIVE": bit(13), "ROUNDING_CONTROL_POSITIVE": bit(14), "ROUNDING_CONTROL_ZERO": bits(13, 14),
  "FLUSH_TO_ZERO": bit(15), "@default": 0x1F80},
 "Dr6Flags": {  # SDM vol.3 17.2.3
  "TRAP0": bit(0), "TRAP1": bit(1), "TRAP2": bit(2), "TRAP3": bit(3), "TRAP": bits(0, 3), "ACCESS_DETECTED": bit(13),
  "STEP": bit(14), "SWITCH": bit(15), "RTM": bit(16),
  **{"trap(%d)" % n: bit(n) for n in range(4)}},
 "Dr7Flags": {  # SDM vol.3 17.2.4
  **{"LOCAL_BREAKPOINT_%d_ENABLE" % n: bit(2 * n) for n in range(4)},
  **{"GLOBAL_BREAKPOINT_%d_ENABLE" % n: bit(2 * n + 1) for n in range(4)},
  "LOCAL_EXACT_BREAKPOINT_ENABLE": bit(8), "GLOBAL_EXACT_BREAKPOINT_ENABLE": bit(9),
  "RESTRICTED_TRANSACTIONAL_MEMORY": bit(11), "GENERAL_DETECT_ENABLE": bit(13),
  **{"local_breakpoint_enable(%d)" % n: bit(2 * n) for n in range(4)},
  **{"global_breakpoint_enable(%d)" % n: bit(2 * n + 1) for n in range(4)}},
 "CetFlags": {  # SDM vol.1 17.1.2 (IA32_U_CET / IA32_S_CET)
  "SS_ENABLE": bit(0), "SS_WRITE_ENABLE": bit(1), "IBT_ENABLE": bit(2), "IBT_LEGACY_ENABLE": bit(3),
  "IBT_NO_TRACK_ENABLE": bit(4), "IBT_LEGACY_SUPPRESS_ENABLE": bit(5), "IBT_SUPPRESS_ENABLE": bit(10), "IBT_TRACKED": bit(11)},
 "ApicBaseFlags": {"BSP": bit(8), "X2APIC_ENABLE": bit(10), "LAPIC_ENABLE": bit(11)},   # SDM vol.3 fig 11-5
 "PageFaultErrorCode": {  # SDM vol.3 fig 4-12; APM vol.2 8.4.2 (RMP)
  "PROTECTION_VIOLATION": bit(0), "CAUSED_BY_WRITE": bit(1), "USER_MODE": bit(2), "MALFORMED_TABLE": bit(3),
  "INSTRUCTION_FETCH": bit(4), "PROTECTION_KEY": bit(5), "SHADOW_STACK": bit(6), "SGX": bit(15), "RMP": bit(31)},
 "Msr": {  # SDM vol.4; APM vol.2 appendix A
  "Efer": 0xC0000080, "Star": 0xC0000081, "LStar": 0xC0000082, "SFMask": 0xC0000084, "FsBase": 0xC0000100,
  "GsBase": 0xC0000101, "KernelGsBase": 0xC0000102, "UCet": 0x6A0, "SCet": 0x6A2, "Pat": 0x277, "ApicBase": 0x1B},
 "PageSize": {"Size4KiB": 1 << 12, "Size2MiB": 1 << 21, "Size1GiB": 1 << 30},
 "ExceptionVector": {  # SDM vol.3 table 6-1; APM vol.2 table 8-1
  "Division": 0, "Debug": 1, "NonMaskableInterrupt": 2, "Breakpoint": 3, "Overflow": 4, "BoundRange": 5, "InvalidOpcode": 6,
  "DeviceNotAvailable": 7, "Double": 8, "InvalidTss": 10, "SegmentNotPresent": 11, "Stack": 12, "GeneralProtection": 13,
  "Page": 14, "X87FloatingPoint": 16, "AlignmentCheck": 17, "MachineCheck": 18, "SimdFloatingPoint": 19,
  "Virtualization": 20, "ControlProtection": 21, "HypervisorInjection": 28, "VmmCommunication": 29, "Security": 30},
 "PatMemoryType": {  # SDM vol.3 table 11-10
  "StrongUncacheable": 0, "WriteCombining": 1, "WriteThrough": 4, "WriteProtected": 5, "WriteBack": 6, "Uncacheable": 7,
  # power-on value of IA32_PAT (SDM vol.3 table 11-12): PA0..PA7 = WB WT UC- UC WB WT UC- UC, one byte each
  "@Pat::DEFAULT": 0x0007040600070406},
 "PrivilegeLevel": {"Ring0": 0, "Ring1": 1, "Ring2": 2, "Ring3": 3},
 "BreakpointCondition": {"InstructionExecution": 0, "DataWrites": 1, "IoReadsWrites": 2, "DataReadsWrites": 3},  # SDM 17.2.4 R/W
 "BreakpointSize": {"Length1B": 0, "Length2B": 1, "Length8B": 2, "Length4B": 3},                                # SDM 17.2.4 LEN
 "SegmentSelector": {"NULL": 0},
}

def w(v):
    return "<<%d, %d, %d, %d>>" % (v & 0xffff, (v >> 16) & 0xffff, (v >> 32) & 0xffff, (v >> 48) & 0xffff)

lines = []
for g, d in T.items():
    for n, v in d.items():
        lines.append('    "%s::%s" :> %s' % (g, n, w(v)))
    # union of the named single flags (for types whose every defined bit is named)
out = """------------------------------ MODULE ArchConsts ------------------------------
(* GENERATED by /verif/tools/gen_arch_table.py - edit the table there.              *)
(* Named constants of the x86_64 architecture, written from the manuals and keyed   *)
(* by the names the crate gives them ("Group::NAME" -> 64-bit value as 4 limbs).    *)
EXTENDS TLC
ConstTable ==
%s
ExceptionVectorNumbers == {%s}
=============================================================================
""" % (" @@\n".join(lines), ", ".join(str(v) for v in sorted(T["ExceptionVector"].values())))
open("/verif/spec/ArchConsts.tla", "w").write(out)
print(len(lines), "constants")
