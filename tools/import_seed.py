#!/usr/bin/env python3
"""import_seed.py <ID> <mutdir> <name> <release:0|1> : copy a confirmed seeded change into /verif/seeded/<name>/"""
import json, os, shutil, sys
pid, mdir, name, rel = sys.argv[1], sys.argv[2], sys.argv[3], sys.argv[4] == "1"
d = "/verif/seeded/" + name
os.makedirs(d, exist_ok=True)
shutil.copy(mdir + "/patch.diff", d + "/patch.diff")
shutil.copy(mdir + "/demo.rs", d + "/demo.rs")
notes = open(mdir + "/notes.md").read() if os.path.exists(mdir + "/notes.md") else ""
open(d + "/notes.md", "w").write(notes)
meta = {
    "property": pid,
    "origin": "independent sub-agent given only the property text and a scratch worktree",
    "needs_to_manifest": notes.strip().split("\n")[0:12],
    "demo": "place demo.rs at tests/demo_%s.rs; cargo test --offline %s--test demo_%s" % (pid, "--release " if rel else "", pid),
    "confirmed": "tools/confirm_seed.sh in a scratch worktree of /repo HEAD: patch applies; crate suite (36 unit + doc tests) passes with it; demo fails with it and passes without it",
    "detected_by": "see DESIGN.md section 14 (table of seeded changes)",
}
json.dump(meta, open(d + "/meta.json", "w"), indent=1)
print("imported", d)
