#!/usr/bin/env python3
"""seed_table.py <RESULTS.txt> : regenerate the table of seeded changes in DESIGN.md (between the SEED-TABLE markers)
from the output of tools/seed_matrix.sh and the seeds' notes."""
import json, os, re, sys
res = {}
lines_in = []
for fn in sys.argv[1:]:          # later files override earlier results of the same (seed, check)
    lines_in += open(fn).read().split("\n")
last = {}
for line in lines_in:
    m = re.match(r"(\S+) check=(\S+) ", line)
    if m:
        last[(m.group(1), m.group(2))] = line
for line in last.values():
    m = re.match(r"(\S+) check=(\S+) exit=(\d+) (\d+)s \| ?(.*)", line)
    if not m:
        continue
    seed, chk, rc, secs, first = m.groups()
    op = re.search(r'"op": "([^"]+)"', first)
    tr = re.search(r"REJECTED (\S+) line", first)
    res.setdefault(seed, []).append((chk, int(rc), op.group(1) if op else "", tr.group(1) if tr else ""))
rows = []
for seed in sorted(os.listdir("/verif/seeded")):
    d = "/verif/seeded/" + seed
    if not os.path.isdir(d):
        continue
    meta = json.load(open(d + "/meta.json"))
    notes = [x.strip() for x in open(d + "/notes.md").read().split("\n") if x.strip()]
    title = re.sub(r"^#+\s*", "", notes[0]) if notes else ""
    title = re.sub(r"^C\d\d\s*/\s*m\d\s*[-—:]\s*", "", title)
    title = title.replace("|", "/")[:150]
    r = res.get(seed, [])
    det = [c for c in r if c[1] == 1]
    und = [c for c in r if c[1] == 0]
    err = [c for c in r if c[1] not in (0, 1)]
    if det:
        own = [c for c in det if c[0] == meta["property"]]
        txt = "; ".join("%s (`%s` in %s)" % (c[0], c[2], c[3].replace(".ndjson", "")) for c in det)
        if not own:
            txt += " — not by %s" % meta["property"]
    elif r:
        txt = "**not detected** (" + ", ".join(c[0] for c in und) + ")"
    else:
        txt = "(not run)"
    if err:
        txt += " tool error: " + ",".join(c[0] for c in err)
    rows.append("| %s | %s | %s | %s |" % (seed, meta["property"], title, txt))
table = "| seed | property | change | detected by (first rejected event) |\n|---|---|---|---|\n" + "\n".join(rows)
p = "/verif/DESIGN.md"
s = open(p).read()
if "SEED-TABLE-PLACEHOLDER" in s:
    s = s.replace("SEED-TABLE-PLACEHOLDER", "<!-- SEED-TABLE-BEGIN -->\n<!-- SEED-TABLE-END -->")
a = s.index("<!-- SEED-TABLE-BEGIN -->") + len("<!-- SEED-TABLE-BEGIN -->")
b = s.index("<!-- SEED-TABLE-END -->")
s = s[:a] + "\n" + table + "\n" + s[b:]
open(p, "w").write(s)
n = len(rows); nd = sum(1 for x in rows if "not detected" in x)
print("%d seeds, %d not detected" % (n, nd))
