#!/bin/bash
# coverage.sh : build the harness with source-based coverage instrumentation (separate target dir), run every
# driver family at quick sizes, and report which functions / lines of the crate under test were never executed.
# Output: /verif/work/coverage/{report.txt,uncovered_functions.txt}.  A blind-spot finder, not a check.
set -u
R=${VERIF_ROOT:-/verif}
BIN=$(dirname $(ls ~/.rustup/toolchains/nightly-x86_64-unknown-linux-gnu/lib/rustlib/x86_64-unknown-linux-gnu/bin/llvm-profdata))
OUT=$R/work/coverage; rm -rf $OUT; mkdir -p $OUT
cd $R/harness || exit 2
RUSTFLAGS="-C instrument-coverage" CARGO_TARGET_DIR=$OUT/target cargo build --offline --quiet || exit 2
XV=$OUT/target/debug/xv
export LLVM_PROFILE_FILE="$OUT/prof/xv-%p-%m.profraw"
python3 - <<PY
import sys, subprocess, os
sys.path.insert(0, "$R/lib")
import plans
seen = set()
for pid in sorted(plans.PLANS):
    plan = plans.PLANS[pid]("quick", 1)
    for r in plan["runs"]:
        if r["prof"] != "dev":
            continue
        key = tuple(r["args"])
        if key in seen:
            continue
        seen.add(key)
        pre = r.get("pre")
        if pre:
            pre("")
        subprocess.call(["$XV"] + r["args"] + ["--out", "/dev/null"], stdout=subprocess.DEVNULL, stderr=subprocess.DEVNULL)
print(len(seen), "driver runs")
PY
$BIN/llvm-profdata merge -sparse $OUT/prof/*.profraw -o $OUT/xv.profdata || exit 2
REPO=$(python3 -c "import re;print(re.search(r'path = \"([^\"]+)\"', open('$R/harness/Cargo.toml').read()).group(1))")
$BIN/llvm-cov report $XV -instr-profile=$OUT/xv.profdata $(find $REPO/src -name '*.rs') > $OUT/report.txt 2>/dev/null
$BIN/llvm-cov export $XV -instr-profile=$OUT/xv.profdata -format=text $(find $REPO/src -name '*.rs') 2>/dev/null | python3 -c "
import json,sys,subprocess
d=json.load(sys.stdin)
un=[]
for f in d['data'][0]['functions']:
    if f['count']==0 and any('$REPO/src' in x for x in f['filenames']):
        un.append((f['filenames'][0].replace('$REPO/',''), f['regions'][0][0], f['name']))
import re
seen=set(); out=[]
for fn,line,name in sorted(un):
    k=(fn,line)
    if k in seen: continue
    seen.add(k); out.append('%s:%d %s'%(fn,line,name))
open('$OUT/uncovered_functions.txt','w').write('\n'.join(out)+'\n')
print(len(out),'uncovered function instances')
"
tail -3 $OUT/report.txt
