#!/bin/bash
# dev_iso.sh <check args...> : run bin/check in an isolated copy of the current /verif working tree (/tmp/vdev) whose
# harness builds against a scratch worktree of /repo HEAD - usable while seeded/benign experiments modify /repo.
V=/tmp/vdev; W=/tmp/mut/devrepo
mkdir -p $V /tmp/mut
rsync -a --delete --exclude harness/target --exclude work --exclude gen --exclude .git --exclude evidence /verif/ $V/
if [ ! -d $W ]; then git -C /repo worktree add -q --detach $W HEAD || exit 2; else git -C $W checkout -q --detach $(git -C /repo rev-parse HEAD) 2>/dev/null; git -C $W checkout -q -- .; fi
sed -i "s|path = \"/repo\"|path = \"$W\"|" $V/harness/Cargo.toml
mkdir -p $V/work $V/evidence
VERIF_ROOT=$V $V/bin/check "$@"
