#!/bin/bash
# soak_pt.sh <first-seed> <count> <n> [mix] : validate many page-table traces, print rejected events
mkdir -p /verif/work/soak
for ((s=$1; s<$1+$2; s++)); do
  for prof in debug release; do
    f=/verif/work/soak/pt_${4:-default}_${s}_$prof.ndjson
    /verif/harness/target/$prof/xv pt --prop ${4:-default} --seed $s --n $3 --out $f 2>/dev/null || { echo "HARNESS-FAIL seed=$s $prof"; continue; }
    TV_TIMEOUT=3600 /verif/bin/tv Trace_PT $f soak_$$ 2>&1 | grep -oE 'MISMATCH", [0-9]+|CONSUMED' | tr '\n' ' ' | sed "s/^/seed=$s $prof: /"; echo
  done
done
