#!/usr/bin/env python3
"""stim2ndjson.py <tlc-output> <out.ndjson> : turn the STIM lines an MC_PT_stim* run prints into stimuli for
`xv ptstim` (entries as raw words; flag sets as raw words)."""
import json, re, sys
def word(bits): 
    v = 0
    for b in bits: v |= 1 << b
    return [v & 0xffff, (v >> 16) & 0xffff, (v >> 32) & 0xffff, (v >> 48) & 0xffff]
def orw(a, b): return [x | y for x, y in zip(a, b)]
n = 0
with open(sys.argv[2], "w") as out:
    for line in open(sys.argv[1], errors="replace"):
        if not line.startswith('<<"STIM", "'):
            continue
        js = line[len('<<"STIM", '):].rstrip()
        js = js[:js.rindex(">>")]
        d = json.loads(json.loads(js))
        d["mem"] = [[t[0], t[1], orw(t[2], word(t[3]))] for t in d["mem"]]
        d["F"] = word(d["F"]); d["PF"] = word(d["PF"])
        out.write(json.dumps(d, separators=(",", ":")) + "\n"); n += 1
print(n, "stimuli")
