"""Per-property plans: which design checks (TLC on the specification), which harness runs and
which trace specification decide each property."""
import json

ADDR_ASSUME = [
    "Arch constants (VB=48, PB=52, OB=12, IB=9) and the declarative lemmas of MC_Addr.tla state the intended meaning",
    "the 2^64 input quantifier is decided exhaustively at 8-bit (quick) / 12-bit (thorough) words on the same operator text and sampled at 64 bit on the boundary lattice {2^k+d} plus seeded random values",
    "TLC, the JSON/IOUtils community modules and the harness's logging of raw operands are trusted",
]


def event_key(line):
    """-> (distinctness key or None if trivial, operation name, 1 if the line starts a behaviour)"""
    try:
        e = json.loads(line)
    except Exception:
        return None, "unparsable", 0
    op = e.get("op") or e.get("ev") or "?"
    inp = {k: v for k, v in e.items() if k not in ("prof", "res", "lo", "len", "size", "empty", "items", "itk", "mem", "probe", "seq")}
    trivial = all((v in ([0, 0, 0, 0], 0, "", [], op)) for v in inp.values())
    key = None if trivial else json.dumps(inp, sort_keys=True)
    return key, op, 1 if op in ("reset", "inject") else 0


def addr_plan(prop, n_quick, n_thorough, cfgs8, cfgs12, rule, profiles=("dev", "rel"), exhaustive_note=None):
    def mk(tier, seed):
        design = [{"module": "MC_Addr", "cfg": c, "workers": 8} for c in cfgs8]
        if tier == "thorough":
            design += [{"module": "MC_Addr", "cfg": c, "workers": 16, "timeout": 7200, "xmx": "24g"} for c in cfgs12]
        n = n_quick if tier == "quick" else n_thorough
        runs = []
        seeds = [seed] if tier == "quick" else [seed, seed + 1000, seed + 2000]
        for sd in seeds:
            for prof in profiles:
                runs.append({"name": "addr%d" % sd, "prof": prof,
                             "args": ["addr", "--prop", prop, "--seed", str(sd), "--n", str(n)]})
        return {"design": design, "runs": runs, "trace_module": "Trace_Addr", "level": "model_checking",
                "rule": rule, "assumptions": ADDR_ASSUME, "exhaustive_note": exhaustive_note}
    return mk


PLANS = {
    "C03": addr_plan("C03", 12000, 400000, ["MC_Addr_8_C03.cfg", "MC_AddrProg_8.cfg"],
                     ["MC_Addr_12_C03.cfg", "MC_AddrProg_12.cfg"],
                     "events = every constructor on the 64-bit boundary lattice and seeded random words, plus random programs of safe address-returning operations over a pool that re-absorbs results; distinct = distinct (operation, operands); trivial = all operands zero"),
    "C04": addr_plan("C04", 4000, 300000, ["MC_Addr_8_C04.cfg"], ["MC_Addr_12_C04.cfg"],
                     "index/offset accessors on the canonical lattice + random addresses (addresses, pages of 3 sizes, by-level accessor), from_page_table_indices* on a 14-value index lattice product + random tuples, all 65536 u16 for the four small constructors, all four levels; distinct = distinct (operation, operands)",
                     profiles=("dev",),
                     exhaustive_note="index/offset constructors: all 65536 u16 inputs; level helpers: all 4 levels; 14^4 index lattice complete in the thorough tier"),
    "C05": addr_plan("C05", 6000, 400000, ["MC_Addr_8_C05.cfg"], ["MC_Addr_12_C05.cfg"],
                     "Step::{forward_checked,backward_checked,steps_between} on VirtAddr, Page<4K/2M/1G>, PageTableIndex: boundary starts x boundary counts, all 512 indices x boundary counts, seeded random; distinct = distinct (operation, operands)",
                     profiles=("dev", "rel")),
    "C06": addr_plan("C06", 6000, 400000, ["MC_Addr_8_C06.cfg"], ["MC_Addr_12_C06.cfg"],
                     "align_up/align_down (raw, VirtAddr, PhysAddr), is_aligned, containing_address/from_start_address x 3 sizes: 64-bit lattice x all 64 powers of two and non-powers, seeded random; distinct = distinct (operation, operands)",
                     profiles=("dev", "rel")),
    "C07": addr_plan("C07", 8000, 400000, ["MC_Addr_8_C07.cfg"], ["MC_Addr_12_C07.cfg"],
                     "+,-,+=,-= and difference on VirtAddr/PhysAddr/Page/PhysFrame (3 sizes): boundary bases x boundary offsets + random, in BOTH build profiles (dev: overflow checks on, release: off); exclusive and inclusive page/frame ranges ending at / starting before the last page of each half, the last physical frame, zero, random interior, fully iterated (length <= 700) with len()/size(); distinct = distinct (operation, operands)",
                     profiles=("dev", "rel")),
}
