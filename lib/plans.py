"""Per-property plans: which design checks (TLC on the specification), which harness runs and
which trace specification decide each property."""
import json

ADDR_ASSUME = [
    "Arch constants (VB=48, PB=52, OB=12, IB=9) and the declarative lemmas of MC_Addr.tla state the intended meaning",
    "the 2^64 input quantifier is decided exhaustively at 8-bit (quick) / 12-bit (thorough) words on the same operator text and sampled at 64 bit on the boundary lattice {2^k+d} plus seeded random values",
    "TLC, the JSON/IOUtils community modules and the harness's logging of raw operands are trusted",
]


def event_key(line):
    """-> (distinctness key or None if trivial, operation name, 1 if the line starts a behaviour)"""
    try:
        e = json.loads(line)
    except Exception:
        return None, "unparsable", 0
    op = e.get("op") or e.get("ev") or "?"
    inp = {k: v for k, v in e.items() if k not in ("prof", "res", "lo", "len", "size", "empty", "items", "itk", "mem", "probe", "seq")}
    trivial = all((v in ([0, 0, 0, 0], 0, "", [], op)) for v in inp.values())
    key = None if trivial else json.dumps(inp, sort_keys=True)
    return key, op, 1 if op in ("reset", "inject") else 0


def addr_plan(prop, n_quick, n_thorough, cfgs8, cfgs12, rule, profiles=("dev", "rel"), exhaustive_note=None):
    def mk(tier, seed):
        design = [{"module": "MC_Addr", "cfg": c, "workers": 8} for c in cfgs8]
        if tier == "thorough":
            design += [{"module": "MC_Addr", "cfg": c, "workers": 16, "timeout": 7200, "xmx": "24g"} for c in cfgs12]
        n = n_quick if tier == "quick" else n_thorough
        runs = []
        seeds = [seed] if tier == "quick" else [seed, seed + 1000, seed + 2000]
        for sd in seeds:
            for prof in profiles:
                runs.append({"name": "addr%d" % sd, "prof": prof,
                             "args": ["addr", "--prop", prop, "--seed", str(sd), "--n", str(n)]})
        return {"design": design, "runs": runs, "trace_module": "Trace_Addr", "level": "model_checking",
                "rule": rule, "assumptions": ADDR_ASSUME, "exhaustive_note": exhaustive_note}
    return mk


PLANS = {
    "C03": addr_plan("C03", 12000, 400000, ["MC_Addr_8_C03.cfg", "MC_AddrProg_8.cfg"],
                     ["MC_Addr_12_C03.cfg", "MC_AddrProg_12.cfg"],
                     "events = every constructor on the 64-bit boundary lattice and seeded random words, plus random programs of safe address-returning operations over a pool that re-absorbs results; distinct = distinct (operation, operands); trivial = all operands zero"),
    "C04": addr_plan("C04", 4000, 300000, ["MC_Addr_8_C04.cfg"], ["MC_Addr_12_C04.cfg"],
                     "index/offset accessors on the canonical lattice + random addresses (addresses, pages of 3 sizes, by-level accessor), from_page_table_indices* on a 14-value index lattice product + random tuples, all 65536 u16 for the four small constructors, all four levels; distinct = distinct (operation, operands)",
                     profiles=("dev",),
                     exhaustive_note="index/offset constructors: all 65536 u16 inputs; level helpers: all 4 levels; 14^4 index lattice complete in the thorough tier"),
    "C05": addr_plan("C05", 6000, 400000, ["MC_Addr_8_C05.cfg"], ["MC_Addr_12_C05.cfg"],
                     "Step::{forward_checked,backward_checked,steps_between} on VirtAddr, Page<4K/2M/1G>, PageTableIndex: boundary starts x boundary counts, all 512 indices x boundary counts, seeded random; distinct = distinct (operation, operands)",
                     profiles=("dev", "rel")),
    "C06": addr_plan("C06", 6000, 400000, ["MC_Addr_8_C06.cfg"], ["MC_Addr_12_C06.cfg"],
                     "align_up/align_down (raw, VirtAddr, PhysAddr), is_aligned, containing_address/from_start_address x 3 sizes: 64-bit lattice x all 64 powers of two and non-powers, seeded random; distinct = distinct (operation, operands)",
                     profiles=("dev", "rel")),
    "C07": addr_plan("C07", 8000, 400000, ["MC_Addr_8_C07.cfg"], ["MC_Addr_12_C07.cfg"],
                     "+,-,+=,-= and difference on VirtAddr/PhysAddr/Page/PhysFrame (3 sizes): boundary bases x boundary offsets + random, in BOTH build profiles (dev: overflow checks on, release: off); exclusive and inclusive page/frame ranges ending at / starting before the last page of each half, the last physical frame, zero, random interior, fully iterated (length <= 700) with len()/size(); distinct = distinct (operation, operands)",
                     profiles=("dev", "rel")),
}


PT_ASSUME = [
    "PageTables.tla states the intended meaning of the Mapper/Translate/CleanUp calls (written from the trait documentation and the property text); Arch bit layout of entries as in the SDM/APM",
    "design check: TLC explores every reachable hierarchy of a small universe (MC_PT_*.cfg) - all histories within it, unbounded length; the real crate is driven on seeded random histories over the large universe (all 512 indices, frames up to 2^52) and every call is validated",
    "user obligations of the unsafe API are respected by the driver (aligned frames, leaf/parent flags contain PRESENT, parent flags without HUGE_PAGE, no use of bit 12 as a flag, pages outside the recursive slot)",
    "mapper kinds in this run: MappedPageTable (arbitrary frame-to-pointer map over a memfd arena) and OffsetPageTable (several lower-half offsets incl. 0)",
    "TLC, CommunityModules and the harness's snapshot/diff of simulated physical memory are trusted",
]


def stateful_prefix(trace_path, n):
    """lines of the behaviour that contains line n, from its reset up to line n"""
    lines = open(trace_path).read().split("\n")
    start = n
    while start > 1 and '"op":"reset"' not in lines[start - 1]:
        start -= 1
    return lines[start - 1:n]


def pt_replay_lines(unknown, _lines):
    out = []
    for e in unknown[:5]:
        out += stateful_prefix(e["_trace"], e["_line"])
    return out


def pt_plan(mix, n_quick, n_thorough, rule, design_quick, design_thorough, kinds="mapped,offset"):
    def mk(tier, seed):
        design = [{"module": "MC_PT", "cfg": c, "workers": 12, "timeout": 900} for c in design_quick]
        if tier == "thorough":
            design += [{"module": "MC_PT", "cfg": c, "workers": 16, "timeout": 14400, "xmx": "24g"} for c in design_thorough]
        n = n_quick if tier == "quick" else n_thorough
        seeds = [seed] if tier == "quick" else [seed + 7 * k for k in range(6)]
        runs = []
        for sd in seeds:
            for prof in (("dev",) if tier == "quick" else ("dev", "rel")):
                runs.append({"name": "pt_%s_%d" % (mix, sd), "prof": prof,
                             "args": ["pt", "--prop", mix, "--mode", kinds, "--seed", str(sd), "--n", str(n)],
                             "vtimeout": 3600})
        return {"design": design, "runs": runs, "trace_module": "Trace_PT", "level": "model_checking",
                "rule": rule, "assumptions": PT_ASSUME, "replay_lines": pt_replay_lines}
    return mk


PLANS.update({
    "C01": pt_plan("default", 7000, 60000,
                   "behaviours = seeded random call histories (30-120 calls of map/identity-map/unmap/update_flags/set_flags_p4-p2/clean_up/translate_page of the 3 sizes, nested and neighbouring pages from a small hot index set per behaviour incl. first/last page of each half; half of the calls aim at currently mapped pages) on MappedPageTable and OffsetPageTable; after each call the raw changed slots are compared with the specification and 3-4 probe addresses are translated (translate, translate_addr, translate_page vs. hardware walk vs. history); distinct = distinct (operation, arguments)",
                   ["MC_PT_t1.cfg"], ["MC_PT_tiny.cfg"]),
    "C02": pt_plan("errors", 7000, 60000,
                   "as C01 with an operation mix that favours failing calls; the allocator fails at the 1st, 2nd or 3rd request of half of the map calls; for every call that returned an error the error kind must be the documented one (any error where the documentation is silent) and the raw table memory must be unchanged except allowed parent-flag widening / freshly linked zeroed tables; distinct = distinct (operation, arguments)",
                   ["MC_PT_t1.cfg"], ["MC_PT_tiny.cfg"]),
    "C09": pt_plan("alloc", 7000, 60000,
                   "as C01 with an allocation-heavy mix over physical memory pre-filled with non-zero junk; the allocator hands out fresh, recycled (freed by clean_up, re-junked) and 2MiB/1GiB-aligned frames in random order; per call: the set of frames the mapper asked a pointer for (MappedPageTable; exact) must be tables of the hierarchy or just allocated, no other 8-byte slot of the arena may change, every non-zero slot of a new table must be one the call wrote, allocator requests = missing tables (<= 1/2/3), no alloc/dealloc elsewhere; distinct = distinct (operation, arguments)",
                   ["MC_PT_t1.cfg"], ["MC_PT_tiny.cfg"]),
    "C10": pt_plan("clean", 7000, 60000,
                   "as C01 with a clean-up-heavy mix: clean_up and clean_up_addr_range with ranges that are empty/reversed, a single page, exactly one level-1/2/3 table, unaligned, spanning the canonical gap, ending at the last page, the whole space; half of the clean-ups are repeated immediately; freed set D must satisfy InsideEmpty <= D <= OverlapEmpty, each frame once, unlinked before release, translations unchanged, second call frees nothing; distinct = distinct (operation, arguments)",
                   ["MC_PT_t1.cfg"], ["MC_PT_tiny.cfg"]),
})
