"""Per-property plans: which design checks (TLC on the specification), which harness runs and
which trace specification decide each property."""
import json
import os

ADDR_ASSUME = [
    "Arch constants (VB=48, PB=52, OB=12, IB=9) and the declarative lemmas of MC_Addr.tla state the intended meaning",
    "the 2^64 input quantifier is decided exhaustively at 8-bit (quick) / 12-bit (thorough) words on the same operator text and sampled at 64 bit on the boundary lattice {2^k+d} plus seeded random values",
    "TLC, the JSON/IOUtils community modules and the harness's logging of raw operands are trusted",
]


def event_key(line):
    """-> (distinctness key or None if trivial, operation name, 1 if the line starts a behaviour)"""
    try:
        e = json.loads(line)
    except Exception:
        return None, "unparsable", 0
    op = e.get("op") or e.get("ev") or "?"
    inp = {k: v for k, v in e.items() if k not in ("prof", "res", "lo", "len", "size", "empty", "items", "itk", "mem", "probe", "seq")}
    trivial = all((v in ([0, 0, 0, 0], 0, "", [], op)) for v in inp.values())
    key = None if trivial else json.dumps(inp, sort_keys=True)
    return key, op, 1 if op in ("reset", "inject") else 0


def addr_plan(prop, n_quick, n_thorough, cfgs8, cfgs12, rule, profiles=("dev", "rel"), exhaustive_note=None):
    def mk(tier, seed):
        design = [{"module": "MC_Addr", "cfg": c, "workers": 8} for c in cfgs8]
        if tier == "thorough":
            design += [{"module": "MC_Addr", "cfg": c, "workers": 16, "timeout": 7200, "xmx": "24g"} for c in cfgs12]
        n = n_quick if tier == "quick" else n_thorough
        runs = []
        seeds = [seed] if tier == "quick" else [seed, seed + 1000, seed + 2000]
        for sd in seeds:
            for prof in profiles:
                runs.append({"name": "addr%d" % sd, "prof": prof,
                             "args": ["addr", "--prop", prop, "--seed", str(sd), "--n", str(n)]})
        return {"design": design, "runs": runs, "trace_module": "Trace_Addr", "level": "model_checking",
                "rule": rule, "assumptions": ADDR_ASSUME, "exhaustive_note": exhaustive_note}
    return mk


PLANS = {
    "C03": addr_plan("C03", 12000, 400000, ["MC_Addr_8_C03.cfg", "MC_AddrProg_8.cfg"],
                     ["MC_Addr_12_C03.cfg", "MC_AddrProg_12.cfg"],
                     "events = every constructor on the 64-bit boundary lattice and seeded random words, plus random programs of safe address-returning operations over a pool that re-absorbs results; distinct = distinct (operation, operands); trivial = all operands zero"),
    "C04": addr_plan("C04", 4000, 300000, ["MC_Addr_8_C04.cfg"], ["MC_Addr_12_C04.cfg"],
                     "index/offset accessors on the canonical lattice + random addresses (addresses, pages of 3 sizes, by-level accessor), from_page_table_indices* on a 14-value index lattice product + random tuples, all 65536 u16 for the four small constructors, all four levels; distinct = distinct (operation, operands)",
                     profiles=("dev", "rel"),
                     exhaustive_note="index/offset constructors: all 65536 u16 inputs; level helpers: all 4 levels; 14^4 index lattice complete in the thorough tier"),
    "C05": addr_plan("C05", 6000, 400000, ["MC_Addr_8_C05.cfg"], ["MC_Addr_12_C05.cfg"],
                     "Step::{forward_checked,backward_checked,steps_between} on VirtAddr, Page<4K/2M/1G>, PageTableIndex: boundary starts x boundary counts, all 512 indices x boundary counts, seeded random; distinct = distinct (operation, operands)",
                     profiles=("dev", "rel")),
    "C06": addr_plan("C06", 6000, 400000, ["MC_Addr_8_C06.cfg"], ["MC_Addr_12_C06.cfg"],
                     "align_up/align_down (raw, VirtAddr, PhysAddr), is_aligned, containing_address/from_start_address x 3 sizes: 64-bit lattice x all 64 powers of two and non-powers, seeded random; distinct = distinct (operation, operands)",
                     profiles=("dev", "rel")),
    "C07": addr_plan("C07", 8000, 400000, ["MC_Addr_8_C07.cfg"], ["MC_Addr_12_C07.cfg"],
                     "+,-,+=,-= and difference on VirtAddr/PhysAddr/Page/PhysFrame (3 sizes): boundary bases x boundary offsets + random, in BOTH build profiles (dev: overflow checks on, release: off); exclusive and inclusive page/frame ranges ending at / starting before the last page of each half, the last physical frame, zero, random interior, fully iterated (length <= 700) with len()/size(); distinct = distinct (operation, operands)",
                     profiles=("dev", "rel")),
}


PT_ASSUME = [
    "PageTables.tla states the intended meaning of the Mapper/Translate/CleanUp calls (written from the trait documentation and the property text); Arch bit layout of entries as in the SDM/APM",
    "design check: TLC explores every reachable hierarchy of a small universe (MC_PT_*.cfg) - all histories within it, unbounded length; the real crate is driven on seeded random histories over the large universe (all 512 indices, frames up to 2^52) and every call is validated",
    "user obligations of the unsafe API are respected by the driver (aligned frames, leaf/parent flags contain PRESENT, parent flags without HUGE_PAGE, no use of bit 12 as a flag, pages outside the recursive slot)",
    "mapper kinds in this run: MappedPageTable (arbitrary frame-to-pointer map over a memfd arena), OffsetPageTable (several lower-half offsets incl. 0) and RecursivePageTable (recursive indices < 256 whose 512 GiB region is free in the harness process; its recursive addresses are resolved by a software MMU that walks the simulated tables from the emulated CR3)",
    "TLC, CommunityModules and the harness's snapshot/diff of simulated physical memory are trusted",
]


def stateful_prefix(trace_path, n):
    """lines of the behaviour that contains line n, from its reset up to line n"""
    lines = open(trace_path).read().split("\n")
    start = n
    while start > 1 and '"op":"reset"' not in lines[start - 1]:
        start -= 1
    return lines[start - 1:n]


def pt_replay_lines(unknown, _lines):
    out = []
    for e in unknown[:5]:
        out += stateful_prefix(e["_trace"], e["_line"])
    return out


def ensure_stimuli(which):
    """TLC-generated stimuli (every transition of MC_PT_stim*.cfg with its pre-state) for the
    specification -> implementation replay; regenerated when the specification changes"""
    import os, subprocess, sys
    sys.path.insert(0, os.path.dirname(__file__))
    import vlib
    gen = vlib.VERIF + "/gen"
    os.makedirs(gen, exist_ok=True)
    out = "%s/stim_%s.ndjson" % (gen, which)
    stamp = out + ".hash"
    h = vlib.spec_hash()
    if os.path.exists(out) and os.path.exists(stamp) and open(stamp).read() == h:
        return out
    cfg = {"t1": "MC_PT_stim.cfg", "rec": "MC_PT_stim_rec.cfg"}[which]
    r = vlib.tlc("MC_PT", cfg, "stim_" + which, workers=8, timeout=1800, xmx="8g")
    if "No error has been found" not in r["out"]:
        sys.stderr.write(r["out"][-3000:])
        raise vlib.ToolError("stimulus generation failed (%s)" % cfg)
    raw = "%s/stim_%s.tlcout" % (gen, which)
    open(raw, "w").write(r["out"])
    rc = subprocess.call([sys.executable, vlib.VERIF + "/tools/stim2ndjson.py", raw, out])
    os.remove(raw)
    if rc != 0:
        raise vlib.ToolError("stim2ndjson failed")
    open(stamp, "w").write(h)
    return out


def stim_runs(tier, seed, salt):
    """replay of TLC-generated transitions (pre-state injected) on the three mapper kinds.  Quick tier: a stratified
    sample (tools/stim_sample.py: 12 members of every (operation, size, level, allocator answers, walk shape) class
    plus every 60th transition); thorough tier: every transition."""
    import subprocess, sys
    import vlib
    runs = []
    for kind, which in (("mapped", "t1"), ("offset", "t1"), ("recursive", "rec")):
        full = "%s/gen/stim_%s.ndjson" % (vlib.VERIF, which)
        sampled = "%s/gen/stim_%s_q%d.ndjson" % (vlib.VERIF, which, seed + salt)
        def pre(_tp, which=which, full=full, sampled=sampled):
            ensure_stimuli(which)
            if tier == "quick":
                stamp = sampled + ".hash"
                h = vlib.spec_hash()
                if not (os.path.exists(sampled) and os.path.exists(stamp) and open(stamp).read() == h):
                    rc = subprocess.call([sys.executable, vlib.VERIF + "/tools/stim_sample.py", full, sampled, "60", str(seed + salt)],
                                         stdout=subprocess.DEVNULL)
                    if rc != 0:
                        raise vlib.ToolError("stim_sample failed")
                    open(stamp, "w").write(h)
        runs.append({"name": "stim_%s_%d" % (kind, seed), "prof": "dev" if kind != "offset" or tier == "quick" else "rel",
                     "pre": pre,
                     "args": ["ptstim", "--mode", kind, "--in", sampled if tier == "quick" else full,
                              "--n", "1", "--seed", str(seed + salt)],
                     "vtimeout": 7200})
    return runs


def pt_plan(mix, n_quick, n_thorough, rule, design_quick, design_thorough, kinds="mapped,offset,recursive", salt=0):
    def mk(tier, seed):
        design = [{"module": "MC_PT", "cfg": c, "workers": 12, "timeout": 900} for c in design_quick]
        if tier == "thorough":
            design += [{"module": "MC_PT", "cfg": c, "workers": 16, "timeout": 14400, "xmx": "24g"} for c in design_thorough]
        n = n_quick if tier == "quick" else n_thorough
        seeds = [seed] if tier == "quick" else [seed + 7 * k for k in range(6)]
        runs = []
        for sd in seeds:
            for prof in (("dev",) if tier == "quick" else ("dev", "rel")):
                runs.append({"name": "pt_%s_%d" % (mix, sd), "prof": prof,
                             "args": ["pt", "--prop", mix, "--mode", kinds, "--seed", str(sd), "--n", str(n)],
                             "vtimeout": 3600})
        runs += stim_runs(tier, seed, salt)
        return {"design": design, "runs": runs, "trace_module": "Trace_PT", "level": "model_checking",
                "rule": rule + "; PLUS specification -> implementation replay: transitions of the MC_PT state graph (every explored (state, call) pair, printed by TLC) are replayed on the three mapper kinds with the pre-state injected into simulated physical memory (quick: a stratified sample - 12 members of every (operation, size, level, allocator answers, walk shape) class plus every 60th transition; thorough: all 118 201 per configuration)",
                "assumptions": PT_ASSUME, "replay_lines": pt_replay_lines}
    return mk


PLANS.update({
    "C01": pt_plan("default", 7000, 60000,
                   "behaviours = seeded random call histories (30-120 calls of map/identity-map/unmap/update_flags/set_flags_p4-p2/clean_up/translate_page of the 3 sizes, nested and neighbouring pages from a small hot index set per behaviour incl. first/last page of each half; half of the calls aim at currently mapped pages) on MappedPageTable and OffsetPageTable; after each call the raw changed slots are compared with the specification and 3-4 probe addresses are translated (translate, translate_addr, translate_page vs. hardware walk vs. history); distinct = distinct (operation, arguments)",
                   ["MC_PT_t1.cfg"], ["MC_PT_tiny.cfg"], salt=0),
    "C02": pt_plan("errors", 7000, 60000,
                   "as C01 with an operation mix that favours failing calls; the allocator fails at the 1st, 2nd or 3rd request of half of the map calls; for every call that returned an error the error kind must be the documented one (any error where the documentation is silent) and the raw table memory must be unchanged except allowed parent-flag widening / freshly linked zeroed tables; distinct = distinct (operation, arguments)",
                   ["MC_PT_t1.cfg"], ["MC_PT_tiny.cfg"], salt=17),
    "C09": pt_plan("alloc", 7000, 60000,
                   "as C01 with an allocation-heavy mix over physical memory pre-filled with non-zero junk; the allocator hands out fresh, recycled (freed by clean_up, re-junked) and 2MiB/1GiB-aligned frames in random order; per call: the set of frames the mapper asked a pointer for (MappedPageTable; exact) must be tables of the hierarchy or just allocated, no other 8-byte slot of the arena may change, every non-zero slot of a new table must be one the call wrote, allocator requests = missing tables (<= 1/2/3), no alloc/dealloc elsewhere; distinct = distinct (operation, arguments)",
                   ["MC_PT_t1.cfg"], ["MC_PT_tiny.cfg"], salt=31),
    "C10": pt_plan("clean", 7000, 60000,
                   "as C01 with a clean-up-heavy mix: clean_up and clean_up_addr_range with ranges that are empty/reversed, a single page, exactly one level-1/2/3 table, unaligned, spanning the canonical gap, ending at the last page, the whole space; half of the clean-ups are repeated immediately; freed set D must satisfy InsideEmpty <= D <= OverlapEmpty, each frame once, unlinked before release, translations unchanged, second call frees nothing; distinct = distinct (operation, arguments)",
                   ["MC_PT_t1.cfg"], ["MC_PT_tiny.cfg"], salt=47),
})


CPU_ASSUME = [
    "privileged instructions executed by the compiled wrappers trap in ring 3 (#GP -> SIGSEGV, #UD -> SIGILL); the harness's decoder reports mnemonic and operand registers / memory operand exactly as the CPU would have seen them and resumes after the instruction (an undecodable instruction is a tool error, never skipped)",
    "instruction formats and operand meaning in Cpu.tla are transcribed from the Intel SDM / AMD APM (INVLPGB count = number of additional pages)",
    "both build profiles are run: the inline-asm operand constraints and options are only meaningful in the compiled code",
    "TLC, CommunityModules and the harness's logging are trusted",
]


def ctx_runs(only, seed, tier="quick"):
    """calling-context probes of one group (harness family ctx, validated by Trace_Cpu.CtxOK); thorough: 6 seeds"""
    return [{"name": "ctx_%s%d" % (only, sd), "prof": prof, "trace_module": "Trace_Cpu",
             "args": ["ctx", "--prop", only, "--seed", str(sd)]}
            for sd in ([seed] if tier == "quick" else [seed + 13 * k for k in range(6)]) for prof in ("dev", "rel")]


def cpu_plan(family, n_quick, n_thorough, rule, design=(), extra_runs=(), exhaustive=False, exhaustive_note=None):
    def mk(tier, seed):
        n = n_quick if tier == "quick" else n_thorough
        runs = []
        seeds = [seed] if tier == "quick" else [seed, seed + 11, seed + 22]
        for sd in seeds:
            for prof in ("dev", "rel"):
                runs.append({"name": "%s%d" % (family, sd), "prof": prof,
                             "args": [family, "--seed", str(sd), "--n", str(n)]})
        for er in extra_runs:
            runs.append(er(tier, seed))
        if family in ("intr", "ports"):
            # calling-context probes (flags, argument registers, red zone, repeated calls) around the wrappers
            runs += ctx_runs(family, seed, tier)
        if family == "flush":
            runs += ctx_runs("tlb", seed, tier)
        if family == "regs":
            runs += ctx_runs("regs", seed + 1, tier)
        dz = [dict(d) for d in design]
        if tier == "thorough":
            dz += [{"module": d["module"], "cfg": d["cfg"].replace("tlbq", "tlb"), "workers": 16, "timeout": 7200, "xmx": "16g"}
                   for d in design if "tlbq" in d["cfg"]]
        return {"design": dz, "runs": runs, "trace_module": "Trace_Cpu",
                # C17: TLAPS proof (257 obligations) that the two C17 invariants hold at every nesting depth
                "proofs": ["proofs/IntrProof.tla"] if family == "intr" else [],
                "level": "model_checking", "rule": rule, "assumptions": CPU_ASSUME,
                "exhaustive": exhaustive, "exhaustive_note": exhaustive_note,
                "replay_lines": cpu_replay_lines}
    return mk


def cpu_replay_lines(unknown, lines):
    out = []
    for e in unknown[:8]:
        tr = open(e["_trace"]).read().split("\n")
        n = e["_line"]
        if e.get("op") in ("enable", "disable", "are_enabled", "enable_and_hlt", "wi_enter", "body", "body_end", "wi_exit"):
            start = n
            while start > 1 and '"op":"reset"' not in tr[start - 1]:
                start -= 1
            out += tr[start - 1:n]
        else:
            out.append(tr[n - 1])
    return out


def c11_pt_run(tier, seed):
    return {"name": "pt_tokens_%d" % seed, "prof": "dev", "trace_module": "Trace_PT",
            "args": ["pt", "--prop", "default", "--mode", "mapped,offset", "--seed", str(seed + 5),
                     "--n", "3000" if tier == "quick" else "30000"], "vtimeout": 3600}


PLANS.update({
    "C18": cpu_plan("ports", 0, 0,
                    "ALL 65536 port numbers x widths 8/16/32 x {Port read, Port write, PortReadOnly read, PortWriteOnly write}, 256 ports per event, in debug and release builds; every access is trapped (in/out #GP in ring 3): instruction count, opcode width (EC/ED/EE/EF, 66 prefix), DX, AL/AX/EAX and the returned value are compared; u8 writes use all 256 values, u16/u32 a boundary lattice; device values are distinguishable per (port, width, sequence); 2000 random equality/clone probes; distinct = distinct (kind, width, block)",
                    exhaustive=True,
                    exhaustive_note="ports x widths x access kinds enumerated completely; values: all 256 for u8, lattice for u16/u32"),
    "C17": cpu_plan("intr", 30000, 400000,
                    "programs = ALL statement trees with <= 4 (thorough: 5) nodes over {enable, disable, are_enabled, enable_and_hlt, without_interrupts(body), enable;...;disable} x both initial flag states, plus seeded random programs to nesting depth 6, interpreted as nested closures around the real without_interrupts with distinct return values; cli/sti/hlt trap and drive the emulated IF, which rflags::read_raw overlays (hook H2); events at every program point carry the trapped instructions and the flag; a third of the programs run with the ID flag set; plus window probes (a static cell stored/loaded around and inside the critical section while the emulated interrupt handler samples and overwrites it at every cli/sti: loads and stores must stay inside the window) and red-zone probes (leaf functions with 16 locals around are_enabled / without_interrupts: the closure's result and the caller's locals survive); distinct = distinct (event, instructions, flag)",
                    design=({"module": "MC_Intr", "cfg": "MC_Intr.cfg", "workers": 4},)),
    "C11": cpu_plan("flush", 4000, 60000,
                    "tlb::flush on the canonical lattice + random; flush_all / MapperFlushAll::flush_all with CR3 contents incl. PCID bits; MapperFlush::flush for the 3 sizes; Pcid::new for all 65536 u16; flush_pcid for 4 kinds x boundary PCIDs (thorough: all 4096) x lattice addresses; InvlpgbFlushBuilder over 4KiB/2MiB ranges (empty, 1 page, multiples of count_max +-1, abutting the gap, spanning the gap, upper half, near the top) x count_max in {0,1,2,3,7,8,255,4096,65535,random} x pcid/asid/global/final/nested combinations: every trapped invlpg/invpcid/invlpgb/tlbsync/mov-cr3 operand is decoded by the specification; the builder without a page range (one request without address), ASIDs at and beyond the processor's number of ASIDs, options set before or after pages(), ranges of up to 3*65536+5 pages under a watchdog; plus a page-table run whose every successful call must return a token naming the argument page; distinct = distinct (operation, arguments)",
                    design=({"module": "MC_PT_tlb", "cfg": "MC_PT_tlbq.cfg", "workers": 8, "timeout": 900},),
                    extra_runs=(c11_pt_run,)),
})


def c20_plan(tier, seed):
    n = 4000 if tier == "quick" else 60000
    runs = [
        {"name": "rec_pages_%d" % seed, "prof": "dev", "trace_module": "Trace_Addr",
         "args": ["addr", "--prop", "C20", "--seed", str(seed), "--n", str(n)]},
        {"name": "rec_pages_%d" % seed, "prof": "rel", "trace_module": "Trace_Addr",
         "args": ["addr", "--prop", "C20", "--seed", str(seed + 1), "--n", str(n)]},
        {"name": "rptnew_%d" % seed, "prof": "dev", "trace_module": "Trace_PT",
         "args": ["rptnew", "--seed", str(seed), "--n", str(n)]},
        {"name": "rptnew_%d" % seed, "prof": "rel", "trace_module": "Trace_PT",
         "args": ["rptnew", "--seed", str(seed + 1), "--n", str(n)]},
        {"name": "pt_rec_%d" % seed, "prof": "dev", "trace_module": "Trace_PT",
         "args": ["pt", "--prop", "default", "--mode", "recursive", "--seed", str(seed + 3), "--n", str(n)],
         "vtimeout": 3600},
    ]
    if tier == "thorough":
        runs.append({"name": "pt_rec_rel_%d" % seed, "prof": "rel", "trace_module": "Trace_PT",
                     "args": ["pt", "--prop", "errors", "--mode", "recursive", "--seed", str(seed + 9), "--n", str(n)],
                     "vtimeout": 3600})
    design = [{"module": "MC_Addr", "cfg": "MC_Addr_8_C20.cfg", "workers": 8},
              {"module": "MC_PT", "cfg": "MC_PT_rec.cfg", "workers": 12, "timeout": 900}]
    if tier == "thorough":
        design.append({"module": "MC_Addr", "cfg": "MC_Addr_12_C20.cfg", "workers": 16, "timeout": 7200, "xmx": "24g"})
    return {"design": design, "runs": runs, "trace_module": "Trace_PT", "level": "model_checking",
            "rule": "(i) RecursivePageTable::new on table references placed (mmap) at recursive addresses and at near-recursive ones (each of the four index positions differing) for free recursive indices < 256, x root-register contents (the table's frame, other frames, flag/PCID bits) x slot contents (right frame present / not present / huge, other frame, present bit only, zero) with decoy slots; (ii) every recursive-region page touched by the real RecursivePageTable during random mapper histories (software-MMU log) must be one of {root, RecP3, RecP2, RecP1} of the call's page and reach the frame the specification's hardware walk reaches; (iii) hook H3: computed table pages for all 512 recursive indices x lattice pages x 3 sizes; distinct = distinct (operation, arguments)",
            "assumptions": PT_ASSUME + ["recursive indices >= 256 cannot be mapped in a user process: they are covered by (iii) only (pure address computation through hook H3)"],
            "replay_lines": pt_replay_lines}


PLANS["C20"] = c20_plan


PLANS["C16"] = cpu_plan("regs", 0, 0,
    "every wrapper listed in the property (Cr0/Cr2/Cr3/Cr4, Dr0-3/Dr6/Dr7, XCr0, Msr, Efer, FsBase, GsBase, KernelGsBase, Star, LStar, SFMask, UCet, SCet, Pat, ApicBase, segment selectors, FS/GS base, load_tss, GS::swap, rflags, mxcsr), each API (read, read_raw, write, write_raw, update, pcid variants) x preset register contents (0, all ones, only unmodelled bits, only modelled bits, alternating patterns, random) x arguments (empty, all, every single flag, random subsets; frame lattice; boundary PCIDs; valid and each invalid class of STAR selector quadruples and XCR0 combinations; canonical lattice; PAT tables over the 6 encodings); the trapped mov-cr/mov-dr/rdmsr/wrmsr/xsetbv/mov-sreg/retfq/ltr/swapgs instructions with register number, ECX and EDX:EAX are recorded in debug and release builds; distinct = distinct (api, preset, arguments)",
    design=({"module": "MC_Regs", "cfg": "MC_Regs.cfg", "workers": 8},))


def c08_plan(tier, seed):
    n = 6000 if tier == "quick" else 300000
    runs = []
    for sd in ([seed] if tier == "quick" else [seed, seed + 1, seed + 2]):
        for prof in ("dev", "rel"):
            runs.append({"name": "pte%d" % sd, "prof": prof, "args": ["pte", "--seed", str(sd), "--n", str(n)]})
    design = [{"module": "MC_Pte", "cfg": "MC_Pte.cfg", "workers": 4}]
    return {"design": design, "runs": runs, "trace_module": "Trace_Pte", "level": "model_checking",
            "rule": "random programs of set_addr/set_frame/set_flags/set_unused/clone on one entry with aligned addresses from the 52-bit physical lattice (and unaligned ones as the panic case) and flag sets from bits 0-11 and 52-63 (each single bit, none, all, random): raw u64 before/after and all getters logged after every step; a PageTable written at all 512 slots through usize index / PageTableIndex / iter_mut and read back through all four paths and as raw bytes; new/default/clone/zero/is_empty incl. a single non-zero slot at each of the 512 positions; sizes and alignment; distinct = distinct (operation, arguments)",
            "assumptions": ADDR_ASSUME, "exhaustive_note": "all 512 slots through every access path"}


PLANS["C08"] = c08_plan


def gdt_replay_lines(unknown, lines):
    out = []
    for e in unknown[:5]:
        tr = open(e["_trace"]).read().split("\n")
        n = e["_line"]
        if e.get("op") in ("gdt_append", "gdt_dump", "gdt_load"):
            start = n
            while start > 1 and '"op":"gdt_reset"' not in tr[start - 1]:
                start -= 1
            out += tr[start - 1:n]
        else:
            out.append(tr[n - 1])
    return out


MACHINE_RULE = ("; PLUS cross-structure scenarios (Trace_Machine): GDT (five descriptors in random order) + TSS with stacks + IDT "
                "with 4-13 handlers and options are built through the API and handed to the emulated CPU (lgdt, ltr, lidt); the raw "
                "memory at the loaded bases is logged and the specification delivers all 256 vectors the way the processor does "
                "(Machine.tla): handler, code segment, IST / RSP0 stack, IF effect, INT n privilege check, #NP for unconfigured vectors")
MACHINE_DESIGN = {"module": "MC_Machine", "cfg": "MC_Machine.cfg", "workers": 2}


def machine_runs(tier, seed):
    n = 400 if tier == "quick" else 6000
    return [{"name": "machine%d" % seed, "prof": prof, "trace_module": "Trace_Machine",
             "args": ["machine", "--seed", str(seed), "--n", str(n)]} for prof in ("dev", "rel")]


def gdt_plan(family, n_quick, n_thorough, rule, design):
    def mk(tier, seed):
        n = n_quick if tier == "quick" else n_thorough
        runs = []
        for sd in ([seed] if tier == "quick" else [seed, seed + 1, seed + 2]):
            for prof in ("dev", "rel"):
                runs.append({"name": "%s%d" % (family, sd), "prof": prof, "args": [family, "--seed", str(sd), "--n", str(n)]})
        runs += machine_runs(tier, seed)
        if family == "gdt":
            runs += ctx_runs("tables", seed, tier)
        return {"design": [dict(d) for d in design] + [MACHINE_DESIGN], "runs": runs, "trace_module": "Trace_Gdt", "level": "model_checking",
                "rule": rule + MACHINE_RULE, "assumptions": CPU_ASSUME[:1] + ADDR_ASSUME[2:] + ["descriptor formats in Gdt.tla are transcribed from SDM vol. 3 ch. 3.4.5 / 7.2.3 (AMD APM vol. 2 ch. 4.7-4.8)"],
                "replay_lines": gdt_replay_lines}
    return mk


PLANS["C14"] = gdt_plan("gdt", 800, 20000,
    "behaviours = GlobalDescriptorTable::<MAX> for MAX in {1,2,3,8,9,8192}: random append sequences of arbitrary 64-bit user descriptors and (low, high) system descriptors of all four DPLs until and beyond capacity (panics caught), logging after every append the selector, len, limit() and the tail of entries(), then the full table, load_unsafe (trapped lgdt operand vs. address of entries()[0]) and a clone; from_raw_entries on random slices incl. the three asserted failure cases; distinct = distinct (operation, arguments)",
    ({"module": "MC_Gdt", "cfg": "MC_Gdt.cfg", "workers": 4},))
PLANS["C15"] = gdt_plan("desc", 2000, 300000,
    "Descriptor::tss_segment_unchecked for every pointer of the 64-bit boundary lattice + seeded random pointers (the function never dereferences), tss_segment(&'static); the four constructors and six DescriptorFlags presets; dpl() on random user/system patterns x 4 levels; field offsets/sizes of TaskStateSegment and DescriptorTablePointer by pointer arithmetic on real instances, iomap_base initial value, raw bytes of a pointer structure; distinct = distinct (operation, arguments)",
    ({"module": "MC_Gdt", "cfg": "MC_Gdt.cfg", "workers": 4},))


def idt_plan(family, n_quick, n_thorough, rule, design, exhaustive_note=None):
    def mk(tier, seed):
        n = n_quick if tier == "quick" else n_thorough
        runs = []
        for k, sd in enumerate([seed] if tier == "quick" else [seed, seed + 1]):
            for prof in ("dev", "rel"):
                # the exhaustive enumerations (n >= 100000) run once per profile; further seeds add random cases
                runs.append({"name": "%s%d" % (family, sd), "prof": prof,
                             "args": [family, "--seed", str(sd), "--n", str(n if k == 0 else min(n, 50000))], "vtimeout": 7200})
        if family == "idt":
            runs += machine_runs(tier, seed)
            runs += ctx_runs("tables", seed, tier)
        return {"design": [dict(d) for d in design] + ([MACHINE_DESIGN] if family == "idt" else []), "runs": runs, "trace_module": "Trace_Idt", "level": "model_checking",
                "rule": rule + (MACHINE_RULE if family == "idt" else ""), "assumptions": CPU_ASSUME[:1] + ["the 64-bit gate format, vector classes (reserved / error-code / diverging) in Idt.tla are transcribed from SDM vol. 3 ch. 6 (APM vol. 2 ch. 8)"] + ADDR_ASSUME[2:],
                "exhaustive_note": exhaustive_note}
    return mk


PLANS["C12"] = idt_plan("idt", 1000, 200000,
    "for ALL 256 vectors a handler address (canonical lattice / random) is set through every path that may reach the vector (named field, idt[v], slice_mut, idt[a..=b], idt[a..], (Bound,Bound)) followed by 2-7 random option setters (present, disable_interrupts, privilege level 0-3, stack index 0-6, code selector); the raw 4096 bytes are diffed after every call; Index/IndexMut<u8> offsets or refusal and named-field offsets for all 256 vectors; range access through all 13 Index impls (+ all 9 Bound kind combinations, slice/slice_mut) on boundary pairs {0,1,30,31,32,33,100,200,254,255}^2 + random (thorough: all 65536 pairs); new/default/clone/reset; trapped lidt operand; distinct = distinct (operation, arguments)",
    ({"module": "MC_Idt", "cfg": "MC_Idt.cfg", "workers": 8},),
    exhaustive_note="all 256 vectors x access paths; thorough: all (start,end) u8 pairs for the range forms")


PLANS["C13"] = idt_plan("idt13", 1000, 200000,
    "set_general_handler!(idt, h, range) with run-time ranges: inclusive (lo, hi) pairs over a 24-value vector lattice (thorough: all 32896 pairs lo <= hi), exclusive and reversed/empty ranges, the full-table and literal-index forms, on fresh and pre-populated tables, raw 4096 bytes before/after; then for every vector of a fully installed table the gate is decoded from raw bytes and entered by simulated delivery (hardware-format frame + error code on the error-code vectors pushed on one of several scratch stacks, varying arithmetic RFLAGS and error-code values 0, 1, all-ones, 0x85, random; jmp to the gate offset) in a forked child; the general handler reports its arguments, the resume point reports rsp/rflags/rip; vectors 8 and 18 (diverging) end in the handler; InterruptStackFrameValue::iretq to a landing pad that reports rsp/rflags; distinct = distinct (operation, arguments)",
    ({"module": "MC_Idt", "cfg": "MC_Idt.cfg", "workers": 8},),
    exhaustive_note="all 256 vectors delivered; thorough: every contiguous (lo,hi) range")


def c19_plan(tier, seed):
    runs = [{"name": "consts%d" % seed, "prof": p, "args": ["consts", "--seed", str(seed)]} for p in ("dev", "rel")]
    return {"design": [], "runs": runs, "trace_module": "Trace_Consts", "level": "exploration",
            "rule": "every named flag of every flags type (enumerated at run time from the bitflags name tables, plus aliases and composites), the six descriptor presets, MSR numbers (ECX of the trapped rdmsr of X::MSR), page sizes, enum discriminants, helper constructors, MXCSR reset value are compared by TLC with an independently written table (ArchConsts.tla, generated from tools/gen_arch_table.py, transcribed from the SDM/APM by bit number); codecs enumerated completely: SegmentSelector index/rpl/set_rpl for all 65536 raw values and new(index, rpl) for all 8192 x 4, PrivilegeLevel::from_u16 for all u16, ExceptionVector::try_from / PatMemoryType::from_bits / DebugAddressRegisterNumber / BreakpointSize / BreakpointCondition for all u8, DR7 fields for 4 registers x 4 conditions x 4 sizes x flag subsets with random other-register fields, SelectorErrorCode for all u16 and wide values; distinct = distinct (operation, arguments)",
            "assumptions": ["ArchConsts.tla is my transcription of the manuals; an error shared by it and the crate would go unnoticed",
                            "constants the run-time enumeration cannot reach (new associated consts that are not bitflags members) are only checked if the driver names them",
                            "TLC, CommunityModules and the harness's logging are trusted"],
            "exhaustive": True, "exhaustive_note": "finite domains (all named constants; all u8/u16 codec inputs) enumerated completely"}


PLANS["C19"] = c19_plan
