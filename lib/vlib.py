"""Shared machinery of /verif/bin/check: build the harness against /repo's working tree, run TLC
(design checks and trace validation), classify rejections against known_findings.json, write
evidence.  Standard library only."""
import fcntl
import hashlib
import json
import os
import re
import subprocess
import sys
import time

VERIF = os.environ.get("VERIF_ROOT", "/verif")
SPEC = VERIF + "/spec"
WORK = VERIF + "/work"
HARNESS = VERIF + "/harness"
EVID = VERIF + "/evidence"
JAVA_CP = "/opt/veriftools/tla/tla2tools.jar:/opt/veriftools/tla/CommunityModules-deps.jar"


class ToolError(Exception):
    pass


def log(*a):
    print(*a, flush=True)


def run(cmd, timeout, env=None, cwd=None):
    e = dict(os.environ)
    if env:
        e.update(env)
    try:
        p = subprocess.run(cmd, cwd=cwd, env=e, stdout=subprocess.PIPE, stderr=subprocess.STDOUT,
                           timeout=timeout, text=True, errors="replace")
    except subprocess.TimeoutExpired as ex:
        raise ToolError("timeout after %ss: %s" % (timeout, " ".join(cmd[:6])))
    return p.returncode, p.stdout


# ---------------------------------------------------------------------------------------------
# harness build (rebuilds exactly when /repo's working tree changed: path dependency)

def build_harness(profiles=("dev", "release")):
    os.makedirs(WORK, exist_ok=True)
    with open(WORK + "/.build.lock", "w") as lk:
        fcntl.flock(lk, fcntl.LOCK_EX)
        for prof in profiles:
            cmd = ["cargo", "build", "--offline", "--quiet"]
            if prof == "release":
                cmd.append("--release")
            t0 = time.time()
            rc, out = run(cmd, 900, cwd=HARNESS, env={"CARGO_NET_OFFLINE": "true"})
            if rc != 0:
                sys.stderr.write(out[-6000:])
                raise ToolError("harness build failed (%s)" % prof)
            log("build %s: %.1fs" % (prof, time.time() - t0))


def xv_path(prof):
    return HARNESS + "/target/" + ("release" if prof in ("rel", "release") else "debug") + "/xv"


def run_xv(prof, args, out_path, timeout=900):
    """run the harness; a crash of the harness itself is a tool error, never a violation"""
    cmd = [xv_path(prof)] + args + ["--out", out_path]
    rc, out = run(cmd, timeout)
    side = out_path + ".crash"
    if rc == 3 and os.path.exists(side):
        # the crate under test crashed the process (unexplained fault): data, like a panic.  Keep the complete
        # lines recorded so far and append the crash record as an event (rejected by every trace specification).
        data = open(out_path, "rb").read() if os.path.exists(out_path) else b""
        data = data[:data.rfind(b"\n") + 1]
        with open(out_path, "wb") as f:
            f.write(data + open(side, "rb").read())
        os.remove(side)
        log("harness: the process crashed while driving the crate; recorded as a crash event")
        return out
    if rc != 0:
        sys.stderr.write(out[-4000:])
        raise ToolError("harness exited %d: %s" % (rc, " ".join(cmd)))
    return out


# ---------------------------------------------------------------------------------------------
# TLC

STATS_RE = re.compile(r"(\d+) states generated, (\d+) distinct states found")


def tlc(module, cfg, metadir, workers=1, timeout=900, env=None, xmx="4g", dfs=False, extra=None):
    os.makedirs(WORK, exist_ok=True)
    jopts = "-Xss1g"
    if dfs:
        jopts += " -Dtlc2.tool.queue.IStateQueue=StateDeque"
    e = {"JAVA_TOOL_OPTIONS": jopts}
    if env:
        e.update(env)
    cmd = ["java", "-XX:+UseParallelGC", "-XX:ParallelGCThreads=%d" % (4 if workers == 1 else 8), "-Xmx" + xmx, "-cp", JAVA_CP, "tlc2.TLC",
           "-workers", str(workers), "-metadir", WORK + "/" + metadir, "-cleanup",
           "-noGenerateSpecTE", "-config", cfg, module + ".tla"]
    if extra:
        cmd += extra
    t0 = time.time()
    rc, out = run(cmd, timeout, env=e, cwd=SPEC)
    m = None
    for m in STATS_RE.finditer(out):
        pass
    gen, dist = (int(m.group(1)), int(m.group(2))) if m else (0, 0)
    return {"rc": rc, "out": out, "generated": gen, "distinct": dist, "wall": time.time() - t0}


def design_check(module, cfg, name, workers=8, timeout=1800, xmx="8g"):
    """TLC on the specification itself.  A failure here is a defect of the specification
    (a broken check), reported as a tool error - never as a violation of the code."""
    r = tlc(module, cfg, "mc_" + name, workers=workers, timeout=timeout, xmx=xmx)
    ok = r["rc"] == 0 and "No error has been found" in r["out"]
    log("design check %s/%s: %s, %d states generated, %d distinct, %.1fs" %
        (module, cfg, "ok" if ok else "FAILED", r["generated"], r["distinct"], r["wall"]))
    if not ok:
        sys.stderr.write(r["out"][-5000:])
        raise ToolError("design check %s %s failed: the specification violates its own invariant" % (module, cfg))
    return {"module": module, "cfg": cfg, "states": r["distinct"], "transitions": r["generated"],
            "wall_s": round(r["wall"], 1)}


def proof_check(path, timeout=1800):
    """tlapm on a proof module.  An unproved obligation is a defect of the proof / specification (tool error)."""
    t0 = time.time()
    rc, out = run(["tlapm", "--threads", "6", "--cleanfp", os.path.basename(path)], timeout, cwd=os.path.dirname(path))
    m = re.search(r"All (\d+) obligations? proved", out)
    log("proof %s: %s, %.1fs" % (os.path.basename(path), m.group(0) if m else "FAILED", time.time() - t0))
    if not m:
        sys.stderr.write(out[-3000:])
        raise ToolError("proof %s: unproved obligations" % path)
    return {"module": os.path.basename(path), "obligations": int(m.group(1)), "discharged": int(m.group(1)),
            "wall_s": round(time.time() - t0, 1)}


MISMATCH_RE = re.compile(r'<<"MISMATCH", (\d+)')
CONSUMED_RE = re.compile(r'<<"CONSUMED", (\d+)>>')


def validate_trace(module, trace_path, name, timeout=1800, xmx="4g"):
    """TLC checks a recorded trace against Trace_*.tla.  Returns the list of rejected line
    numbers (1-based).  Anything other than a clean 'all lines consumed' is a tool error."""
    r = tlc(module, module + ".cfg", "tv_" + name, workers=1, timeout=timeout,
            env={"TRACE": trace_path}, dfs=True, xmx=xmx)
    mism = [int(x) for x in MISMATCH_RE.findall(r["out"])]
    cons = CONSUMED_RE.search(r["out"])
    if not cons:
        sys.stderr.write(r["out"][-5000:])
        raise ToolError("trace validation of %s did not run to the end (TLC error / stuck)" % trace_path)
    if int(cons.group(1)) == 0:
        raise ToolError("empty trace %s" % trace_path)
    log("validated %s: %s lines, %d rejected, %.1fs" % (os.path.basename(trace_path), cons.group(1), len(mism), r["wall"]))
    return {"lines": int(cons.group(1)), "mismatch": sorted(set(mism)), "states": r["distinct"],
            "transitions": r["generated"], "wall_s": round(r["wall"], 1)}


# ---------------------------------------------------------------------------------------------
# known findings

def load_findings():
    p = VERIF + "/known_findings.json"
    if not os.path.exists(p):
        return []
    return json.load(open(p)).get("findings", [])


def _get(ev, path):
    cur = ev
    for k in path.split("."):
        if isinstance(cur, dict) and k in cur:
            cur = cur[k]
        else:
            return None
    return cur


def finding_matches(f, ev):
    """an event matches an *open* finding iff every field listed in f['match'] has one of the
    listed values (dotted paths into the event)"""
    for path, allowed in f.get("match", {}).items():
        v = _get(ev, path)
        if v not in allowed:
            return False
    return True


def classify(prop, events):
    """events: list of rejected event dicts.  -> (known: {finding id: [events]}, unknown: [events])"""
    open_f = [f for f in load_findings() if f.get("status") == "open" and prop in f.get("properties", [f.get("property")])]
    known, unknown = {}, []
    for ev in events:
        for f in open_f:
            if finding_matches(f, ev):
                known.setdefault(f["id"], []).append(ev)
                break
        else:
            unknown.append(ev)
    return known, unknown, open_f


# ---------------------------------------------------------------------------------------------
# evidence

def w2i(w):
    return w[0] | (w[1] << 16) | (w[2] << 32) | (w[3] << 48)


def pretty(ev):
    """human-readable copy of an event (limb arrays -> hex)"""
    def conv(x):
        if isinstance(x, list) and len(x) == 4 and all(isinstance(i, int) and 0 <= i < 65536 for i in x):
            return hex(w2i(x))
        if isinstance(x, list):
            return [conv(i) for i in x[:8]] + (["...(%d more)" % (len(x) - 8)] if len(x) > 8 else [])
        if isinstance(x, dict):
            return {k: conv(v) for k, v in x.items()}
        return x
    return conv(ev)


def write_evidence(prop, tier, seed, level, coverage, assumptions, wall, violations):
    os.makedirs(EVID, exist_ok=True)
    ev = {"property_id": prop, "tier": tier, "seed": seed, "level": level, "coverage": coverage,
          "assumptions": assumptions, "wall_s": round(wall, 1), "violations": violations}
    tmp = EVID + "/%s.json.tmp" % prop
    json.dump(ev, open(tmp, "w"), indent=1)
    os.replace(tmp, EVID + "/%s.json" % prop)


def write_replay(prop, seed, n, lines):
    d = EVID + "/replay"
    os.makedirs(d, exist_ok=True)
    p = "%s/%s-%s-%d.ndjson" % (d, prop, seed, n)
    with open(p, "w") as f:
        for ln in lines:
            f.write(ln.rstrip("\n") + "\n")
    return p


def spec_hash():
    h = hashlib.sha256()
    for fn in sorted(os.listdir(SPEC)):
        if fn.endswith(".tla") or fn.endswith(".cfg"):
            h.update(fn.encode())
            h.update(open(os.path.join(SPEC, fn), "rb").read())
    return h.hexdigest()[:16]
